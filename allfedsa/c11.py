"""C11 — a food quantity's unit labels always describe its numbers.

Rules over src/food_system/food.py and unit_conversions.py (ast only):
  C11.TS    typestate of the duplicated label list `self.units` (coherent at every exit)
  C11.LBL   label provenance of every Food(...) construction against the operation table
  C11.MUL   labels chosen by is_a_ratio() are the labels used (no dead stores)
  C11.LANE  nutrient lanes never cross (information flow into kcals/fat/protein and their labels)
  C11.PURE  operations do not modify their operands
  C11.GUARD operands with different units are refused before their numbers are read
  C11.PRED  list arm == scalar arm of every comparison predicate for all four flag settings
"""
from __future__ import annotations

import ast
import itertools

from .core import AnalysisError, loc, norm_src, walk_no_nested, dotted

FOOD = "src/food_system/food.py"
UC = "src/food_system/unit_conversions.py"
LANES = ("kcals", "fat", "protein")
LABELS = ("kcals_units", "fat_units", "protein_units")


def run(index, rep):
    food = index.methods(FOOD, "Food")
    uc = index.methods(UC, "UnitConversions")
    rep.note_analysed("Food_methods", len(food))
    rep.note_analysed("UnitConversions_methods", len(uc))
    rep.guard(typestate, food, uc, rep)
    constructions = collect_constructions(food)
    rep.note_analysed("Food_constructions_in_Food", len(constructions))
    rep.guard(labels, constructions, rep, food)
    rep.guard(mul, food, rep, index)
    rep.guard(lanes, constructions, food, uc, rep)
    rep.guard(purity, food, rep)
    rep.guard(label_list_purity, food, uc, rep)
    rep.guard(guards, food, rep)
    rep.guard(predicates, food, rep, index)
    rep.guard(minimum_rule, index, rep)
    rep.guard(constructor_lanes, food, uc, rep)
    from .lanes import lane_rule
    rep.guard(lane_rule, index, rep, "C11.ARGLANE", ("kcals", "fat", "protein"), 500, "nutrient lanes crossed at a call")


# =============================================================================== C11.CTOR


def constructor_lanes(food, uc, rep):
    """construction: the three numbers and the three labels a quantity is built from each land in their own slot - every store of a lane or a
    label in the constructor reads its own argument only (the length of kcals may size a default), and every call of the label setter hands
    the three labels over in the setter's own order, however the arguments are assembled (plainly, or spread from a comprehension)"""
    import copy
    rule = "C11.CTOR"
    init = food.get("__init__")
    su = uc.get("set_units") or food.get("set_units")
    if init is None or su is None:
        raise AnalysisError("Food.__init__ / set_units not found")
    LANES3 = ("kcals", "fat", "protein")
    order = [a.arg for a in su.args.args][1:4]
    if sorted(o.replace("_units", "") for o in order) != sorted(LANES3) or not all(o.endswith("_units") for o in order):
        raise AnalysisError(f"set_units no longer takes the three labels kcals_units, fat_units, protein_units (in any order): {order}")

    def refs(e, suffix, skip_len=True):
        """which of the three lanes (suffix '') or labels (suffix '_units') an expression reads, as parameters or as attributes of self"""
        out = set()
        for n_ in ast.walk(e):
            if skip_len and isinstance(n_, ast.Call) and isinstance(n_.func, ast.Name) and n_.func.id == "len":
                for x in ast.walk(n_):
                    x._in_len = True
        for n_ in ast.walk(e):
            if getattr(n_, "_in_len", False):
                continue
            for ln in LANES3:
                if (isinstance(n_, ast.Name) and n_.id == ln + suffix) or (isinstance(n_, ast.Attribute) and n_.attr == ln + suffix and isinstance(n_.value, ast.Name) and n_.value.id == "self"):
                    out.add(ln)
        return out

    n = 0
    for st in walk_no_nested(init):
        if isinstance(st, ast.Assign) and len(st.targets) == 1 and isinstance(st.targets[0], ast.Attribute) and isinstance(st.targets[0].value, ast.Name) \
                and st.targets[0].value.id == "self":
            attr = st.targets[0].attr
            for ln in LANES3:
                for suffix in ("", "_units"):
                    if attr == ln + suffix:
                        n += 1
                        got = refs(copy.deepcopy(st.value), suffix)
                        rep.check(got <= {ln}, rule, f"__init__: self.{attr} from its own argument",
                                  f"self.{attr} is computed from {sorted(got)}: a {'label' if suffix else 'number'} of another nutrient ends up in this slot",
                                  loc=loc(FOOD, st))
    for c in [c for c in walk_no_nested(init) if isinstance(c, ast.Call) and isinstance(c.func, ast.Attribute) and c.func.attr == "set_units"]:
        args = list(c.args)
        if len(args) == 1 and isinstance(args[0], ast.Starred):
            v = args[0].value
            if isinstance(v, (ast.ListComp, ast.GeneratorExp)) and len(v.generators) == 1 and not v.generators[0].ifs and isinstance(v.generators[0].target, ast.Name) \
                    and isinstance(v.generators[0].iter, (ast.Tuple, ast.List)):
                var = v.generators[0].target.id
                args = []
                for row in v.generators[0].iter.elts:
                    class _S(ast.NodeTransformer):
                        def visit_Name(self, n_):
                            return copy.deepcopy(row) if n_.id == var and isinstance(n_.ctx, ast.Load) else n_
                    args.append(_S().visit(copy.deepcopy(v.elt)))
            elif isinstance(v, (ast.Tuple, ast.List)):
                args = list(v.elts)
        bound = dict(zip(order, args))
        for k_ in c.keywords:
            if k_.arg:
                bound[k_.arg] = k_.value
        ok = len(bound) >= 3 and not any(isinstance(a_, ast.Starred) for a_ in args)
        detail = ""
        if ok:
            for p_, ln in [(o_, o_.replace("_units", "")) for o_ in order]:
                got = refs(copy.deepcopy(bound[p_]), "_units") if p_ in bound else {"?"}
                if got != {ln}:
                    ok = False
                    detail = f"the {ln} label slot is given {norm_src(bound.get(p_))[:60] if p_ in bound else 'nothing'}"
        n += 1
        rep.check(ok, rule, f"__init__: set_units called with (kcals, fat, protein) labels in the setter's order [{c.lineno - init.lineno:+d}]",
                  "the constructor hands the three labels to set_units in another order than the setter takes them (or in a form that does not show "
                  "the order): " + detail, loc=loc(FOOD, c))
    lanes_stored = {st.targets[0].attr for st in walk_no_nested(init) if isinstance(st, ast.Assign) and len(st.targets) == 1
                    and isinstance(st.targets[0], ast.Attribute) and isinstance(st.targets[0].value, ast.Name) and st.targets[0].value.id == "self"}
    n_set = len([c for c in walk_no_nested(init) if isinstance(c, ast.Call) and isinstance(c.func, ast.Attribute) and c.func.attr == "set_units"])
    if not set(LANES3) <= lanes_stored or n_set < 1:
        raise AnalysisError(f"Food.__init__: the stores of the three numbers ({sorted(set(LANES3) & lanes_stored)}) or the call of the label setter "
                            f"({n_set}) were not found")


# =============================================================================== C11.TS


def _is_self_attr(n, names):
    return isinstance(n, ast.Attribute) and isinstance(n.value, ast.Name) and n.value.id == "self" and n.attr in names


def _targets(t):
    if isinstance(t, (ast.Tuple, ast.List)):
        for e in t.elts:
            yield from _targets(e)
    else:
        yield t


def ts_block(stmts, state, exits):
    """state: 'coherent' | 'stale'; returns state after the block; exits collects (state, node) at returns"""
    for st in stmts:
        if isinstance(st, (ast.Assign, ast.AugAssign, ast.AnnAssign)):
            tgts = st.targets if isinstance(st, ast.Assign) else [st.target]
            # calls on the right-hand side happen first
            for c in ast.walk(st.value) if getattr(st, "value", None) is not None else []:
                if isinstance(c, ast.Call) and dotted(c.func) in ("self.set_units", "self.get_units"):
                    state = "coherent"
            for t in tgts:
                for e in _targets(t):
                    if _is_self_attr(e, LABELS):
                        state = "stale"
            for t in tgts:
                for e in _targets(t):
                    if _is_self_attr(e, ("units",)):
                        # must be the list of the three labels
                        v = st.value
                        if isinstance(v, ast.List) and len(v.elts) == 3:
                            state = "coherent"
        elif isinstance(st, ast.Expr):
            for c in ast.walk(st.value):
                if isinstance(c, ast.Call) and dotted(c.func) in ("self.set_units", "self.get_units",
                                                                  "self.set_units_from_list_to_total"):
                    state = "coherent"
                elif isinstance(c, ast.Call) and dotted(c.func) in ("self.set_units_from_list_to_element",
                                                                    "self.set_units_from_element_to_list"):
                    state = "callee"  # resolved by the callee's own verdict
        elif isinstance(st, ast.If):
            a = ts_block(st.body, state, exits)
            b = ts_block(st.orelse, state, exits)
            state = "stale" if "stale" in (a, b) else a if a == b else ("callee" if "callee" in (a, b) else "coherent")
        elif isinstance(st, (ast.For, ast.While)):
            a = ts_block(st.body, state, exits)
            state = "stale" if "stale" in (a, state) else state
        elif isinstance(st, ast.With):
            state = ts_block(st.body, state, exits)
        elif isinstance(st, ast.Try):
            state = ts_block(st.body + st.finalbody, state, exits)
        elif isinstance(st, ast.Return):
            for c in ast.walk(st) if st.value is not None else []:
                if isinstance(c, ast.Call) and dotted(c.func) in ("self.set_units", "self.get_units"):
                    state = "coherent"
            exits.append((state, st))
            return state
    return state


def typestate(food, uc, rep):
    rule = "C11.TS"
    verdict = {}
    # the methods that change the labels of their object: by storing to a label attribute, or by calling (on self) a method that does
    relabels = set()
    every = {**uc, **food}
    changed = True
    while changed:
        changed = False
        for name, fn in every.items():
            if name in relabels:
                continue
            direct = any(
                _is_self_attr(e, LABELS)
                for st in ast.walk(fn) if isinstance(st, (ast.Assign, ast.AugAssign))
                for t in (st.targets if isinstance(st, ast.Assign) else [st.target]) for e in _targets(t))
            via = any(isinstance(c, ast.Call) and isinstance(c.func, ast.Attribute) and isinstance(c.func.value, ast.Name) and c.func.value.id == "self"
                      and c.func.attr in relabels for c in ast.walk(fn))
            if direct or via:
                relabels.add(name)
                changed = True
    for cname, rel, methods in (("UnitConversions", UC, uc), ("Food", FOOD, food)):
        for name, fn in methods.items():
            if name not in relabels:
                continue
            exits = []
            end = ts_block(fn.body, "coherent", exits)
            states = [s for s, _ in exits] + [end]
            verdict[(cname, name)] = (states, rel, fn)
    for (cname, name), (states, rel, fn) in verdict.items():
        bad = "stale" in states
        rep.check(not bad, rule, f"{cname}.{name}",
                  "the method rewrites kcals_units/fat_units/protein_units but leaves the combined list `units` stale at exit "
                  "(e.g. get_month(0).units still says 'each month'; a later in_units() then mislabels a scalar)",
                  loc=loc(rel, fn))
    rep.require_min(rule, 5)


# =============================================================================== C11.MIN


def minimum_rule(index, rep):
    """Food.min_elementwise evaluated for two single values and for two monthly series (generic entry): on every path each nutrient of the
    result is one of the two operands' values for that nutrient and the path's own conditions imply it is <= both - whatever the
    nutrient-inclusion flags say (a short cut through a predicate that ignores excluded nutrients returns numbers that are not the minimum)"""
    from .symx import Interp, Obj, Path, PList, NArr, Unsupported, explore, Abort, leaf_implies
    from .rat import Rat
    from .nphooks import np_hook
    rule = "C11.MIN"
    cls, ucls = index.cls(FOOD, "Food"), index.cls(UC, "UnitConversions")
    fn = index.func(FOOD, "Food.min_elementwise")
    n_ok = 0
    for monthly in (False, True):
        def runit(it, monthly=monthly):
            it.classes = {"Food": cls, "UnitConversions": ucls}

            def hook(interp, d, a, kw, node):
                if d == "Food":
                    names = ["kcals", "fat", "protein", "kcals_units", "fat_units", "protein_units"]
                    at = dict(zip(names, a))
                    at.update(kw)
                    return Obj(cls, at, "result")
                if d in ("copy.deepcopy", "copy.copy") and len(a) == 1 and isinstance(a[0], Obj):
                    return Obj(a[0].cls, dict(a[0].attrs), a[0].name)
                return np_hook(interp, d, a, kw, node)

            it.call_hook = hook
            suf = " each month" if monthly else ""

            def mk(n):
                def val(l):
                    a_ = Rat.atom((n, l))
                    return NArr([(a_, Rat.atom(("N",)))]) if monthly else a_
                u = ["billion kcals" + suf, "thousand tons" + suf, "thousand tons" + suf]
                return Obj(cls, {"kcals": val("kcals"), "fat": val("fat"), "protein": val("protein"), "kcals_units": u[0], "fat_units": u[1],
                                 "protein_units": u[2], "units": PList(u), "conversions": Path(("conv",))}, n)

            return it.call_function(fn, [mk("a"), mk("b")], {}, None)

        try:
            leaves = [x for x in explore(runit, month_classes=False) if not isinstance(x[2], Abort)]
        except Unsupported as e:
            raise AnalysisError(f"Food.min_elementwise outside the analysed fragment: {e}")
        bad = None
        for _, dec, res, it in leaves:
            for lane in LANES:
                v = res.attrs.get(lane) if isinstance(res, Obj) else None
                if isinstance(v, NArr) and len(v.segs) == 1:
                    v = v.segs[0][0]
                try:
                    v = it.to_rat(v)
                except Exception:
                    bad = bad or f"{lane} of the result is {v!r}"
                    continue
                a_, b_ = Rat.atom(("a", lane)), Rat.atom(("b", lane))
                if not ((v == a_ or v == b_) and leaf_implies(it, dec, v - a_, "<=") and leaf_implies(it, dec, v - b_, "<=")):
                    cond = ", ".join(f"{k}={'T' if t else 'F'}" for k, t in dec.items())[:160]
                    bad = bad or f"{lane} of the result is {v} on the path [{cond}], which does not make it the smaller of the two"
            n_ok += 1
        rep.check(bad is None and bool(leaves), rule, f"min_elementwise[{'monthly series' if monthly else 'single values'}]: every nutrient is the smaller operand's",
                  f"the result is not the nutrient-wise minimum of the two quantities: {bad}", loc=loc(FOOD, fn))
    rep.require_min(rule, 2)


# =============================================================================== constructions


class Construction:
    def __init__(self, method, fn, call):
        self.method, self.fn, self.call = method, fn, call
        a = {}
        names = list(LANES) + list(LABELS)
        for i, v in enumerate(call.args):
            if i < 6:
                a[names[i]] = v
        for k in call.keywords:
            if k.arg in names:
                a[k.arg] = k.value
        self.args = a
        self.bound = None  # local the result is bound to
        p = getattr(call, "_parent", None)
        if isinstance(p, ast.Assign) and len(p.targets) == 1 and isinstance(p.targets[0], ast.Name):
            self.bound = p.targets[0].id


def collect_constructions(food):
    out = []
    for name, fn in food.items():
        for c in ast.walk(fn):
            if isinstance(c, ast.Call) and isinstance(c.func, ast.Name) and c.func.id == "Food":
                out.append(Construction(name, fn, c))
    return out


def local_defs(fn):
    """name -> list of expressions flowing into the local (assignments, aug-assignments, appends, for targets)"""
    d = {}
    for st in walk_no_nested(fn):
        if isinstance(st, ast.Assign):
            for t in st.targets:
                if isinstance(t, ast.Name):
                    d.setdefault(t.id, []).append(st.value)
                elif isinstance(t, (ast.Tuple, ast.List)):
                    if isinstance(st.value, (ast.Tuple, ast.List)) and len(st.value.elts) == len(t.elts):
                        for te, ve in zip(t.elts, st.value.elts):
                            if isinstance(te, ast.Name):
                                d.setdefault(te.id, []).append(ve)
                    else:
                        for te in t.elts:
                            if isinstance(te, ast.Name):
                                d.setdefault(te.id, []).append(st.value)
                elif isinstance(t, ast.Subscript) and isinstance(t.value, ast.Name):
                    d.setdefault(t.value.id, []).append(st.value)
        elif isinstance(st, ast.AugAssign) and isinstance(st.target, ast.Name):
            d.setdefault(st.target.id, []).append(st.value)
        elif isinstance(st, ast.For) and isinstance(st.target, ast.Name):
            d.setdefault(st.target.id, []).append(st.iter)
        elif isinstance(st, ast.For) and isinstance(st.target, (ast.Tuple, ast.List)):
            for te in st.target.elts:
                if isinstance(te, ast.Name):
                    d.setdefault(te.id, []).append(st.iter)
        elif isinstance(st, ast.Call) and isinstance(st.func, ast.Attribute) and st.func.attr in ("append", "extend") \
                and isinstance(st.func.value, ast.Name):
            d.setdefault(st.func.value.id, []).extend(st.args)
    return d


def closure_exprs(expr, defs, params):
    """all expressions that can flow into `expr` through locals (transitively)"""
    seen_names = set()
    out = [expr]
    work = [expr]
    seen_slots = set()
    while work:
        e = work.pop()
        # `x[k]` of a local that is only ever bound to list/tuple literals: entry k of each of them flows in, not the whole list
        slotted = set()
        for n in _walk_data(e):
            if isinstance(n, ast.Subscript) and isinstance(n.value, ast.Name) and isinstance(n.slice, ast.Constant) and isinstance(n.slice.value, int) \
                    and n.value.id in defs and n.value.id not in params and defs[n.value.id] and all(
                        isinstance(v, (ast.List, ast.Tuple)) and 0 <= n.slice.value < len(v.elts) for v in defs[n.value.id]):
                slotted.add(id(n.value))
                if (n.value.id, n.slice.value) not in seen_slots:
                    seen_slots.add((n.value.id, n.slice.value))
                    for v in defs[n.value.id]:
                        out.append(v.elts[n.slice.value])
                        work.append(v.elts[n.slice.value])
        for n in _walk_data(e):
            if isinstance(n, ast.Name) and id(n) not in slotted and n.id in defs and n.id not in seen_names and n.id not in params:
                seen_names.add(n.id)
                for v in defs[n.id]:
                    out.append(v)
                    work.append(v)
    return out


def _walk_data(e):
    """walk an expression, skipping sub-expressions that only contribute a length/shape"""
    stack = [e]
    while stack:
        n = stack.pop()
        if isinstance(n, ast.Call) and dotted(n.func) == "len":
            continue
        if isinstance(n, ast.Attribute) and n.attr in ("shape", "size", "NMONTHS"):
            continue
        yield n
        stack.extend(ast.iter_child_nodes(n))


def attrs_used(exprs, names):
    s = set()
    for e in exprs:
        for n in _walk_data(e):
            if isinstance(n, ast.Attribute) and n.attr in names:
                s.add((dotted(n.value) or "?", n.attr))
    return s


# =============================================================================== C11.LBL

# operation -> multiset of accepted label classes (one entry per Food(...) construction in the method)
#   self            the operand's own labels          post:total/element  relabelled by set_units_from_list_to_*
OPS = {
    "ratio_one": ["ratio"], "ratio_zero": ["ratio"],
    "ensure_other_list_zero_if_this_is_zero": ["self"],
    "__add__": ["self"], "__sub__": ["self"], "shift": ["self"], "__neg__": ["self"],
    "__truediv__": ["ratio", "ratio each month", "self"],
    "__getitem__": ["self"],
    "get_nutrients_sum": ["self>total"], "get_abs_values": ["self"], "get_running_total_nutrients_sum": ["self"],
    "get_amount_used_other_food": ["ratio", "self"],
    "min_elementwise": ["param:food1", "param:food1"],
    "get_consumed_amount": ["param:demand_to_be_met"],
    "get_month": ["self>element"],
    "get_min_all_months": ["self>total"], "get_max_all_months": ["self>total"],
    "negative_values_to_zero": ["self", "self"], "get_rounded_to_decimal": ["self"],
    "replace_if_list_with_zeros_is_zero": ["self"],
}


def classify_labels(c, defs):
    classes = []
    for lane, lab in zip(LANES, LABELS):
        e = c.args.get(lab)
        if e is None:
            classes.append("default")
            continue
        if isinstance(e, ast.Constant) and isinstance(e.value, str):
            classes.append(e.value)
            continue
        if isinstance(e, ast.Attribute) and e.attr == lab and isinstance(e.value, ast.Name):
            owner = e.value.id
            params_c = [a.arg for a in c.fn.args.args]
            if owner != "self" and owner not in params_c and owner in defs:
                # a local that stands for one of the operands (`lower = food1 if ... else food2`): the operands' units are asserted equal
                # by the guard rule, so its labels are the first such operand's
                names_ = set()
                plain = True
                for d_ in defs[owner]:
                    alts_ = [d_.body, d_.orelse] if isinstance(d_, ast.IfExp) else [d_]
                    for a_ in alts_:
                        if isinstance(a_, ast.Name) and a_.id in params_c:
                            names_.add(a_.id)
                        elif isinstance(a_, ast.Call) and dotted(a_.func) in ("copy.deepcopy", "copy.copy") and len(a_.args) == 1 \
                                and isinstance(a_.args[0], ast.Name) and a_.args[0].id in params_c:
                            names_.add(a_.args[0].id)
                        elif isinstance(a_, (ast.Tuple, ast.List)) and all(
                                isinstance(n_, (ast.Tuple, ast.List, ast.Load)) or (isinstance(n_, ast.Name) and n_.id in params_c) for n_ in ast.walk(a_)):
                            names_ |= {n_.id for n_ in ast.walk(a_) if isinstance(n_, ast.Name)}      # `for lower, upper in ((p, q), (q, p))`
                        else:
                            plain = False
                if plain and names_:
                    owner = sorted(names_, key=params_c.index)[0]
            classes.append("self" if owner == "self" else "param:" + owner)
            continue
        if isinstance(e, ast.BinOp) and isinstance(e.op, ast.Add) and isinstance(e.right, ast.Constant) \
                and isinstance(e.left, ast.Attribute) and e.left.attr == lab and dotted(e.left.value) == "self":
            classes.append("self+" + e.right.value.strip())
            continue
        if isinstance(e, ast.Name):
            srcs = set()
            for v in defs.get(e.id, []):
                if isinstance(v, ast.Attribute) and v.attr == lab and isinstance(v.value, ast.Name):
                    srcs.add("self" if v.value.id == "self" else "param:" + v.value.id)
                else:
                    srcs.add("?" + norm_src(v))
            classes.append("local{" + ",".join(sorted(srcs)) + "}")
            continue
        classes.append("?" + norm_src(e))
    return classes


def post_relabel(c):
    """set_units_from_list_to_{total,element} called on the bound result before it is returned"""
    if not c.bound:
        return ""
    for n in walk_no_nested(c.fn):
        if isinstance(n, ast.Call) and isinstance(n.func, ast.Attribute) and isinstance(n.func.value, ast.Name) \
                and n.func.value.id == c.bound:
            if n.func.attr == "set_units_from_list_to_total":
                return ">total"
            if n.func.attr == "set_units_from_list_to_element":
                return ">element"
    return ""


def labels(constructions, rep, food_methods=None):
    rule = "C11.LBL"
    by_method = {}
    for c in constructions:
        by_method.setdefault(c.method, []).append(c)
    def classes_of(cs):
        defs = local_defs(cs[0].fn)
        got = []
        for c in cs:
            cl = classify_labels(c, defs)
            uniform = len(set(cl)) == 1
            got.append((cl[0] if uniform else "mixed:" + "|".join(cl)) + post_relabel(c))
        return got

    delegated = {}
    for m in OPS:
        if m not in by_method:
            # the operation may hand over to a helper of the class that builds the result (`return self._combine(other, ...)`): the helper's
            # constructions are this operation's, with the helper's parameters read as the arguments it is given here
            fn_m = (food_methods or {}).get(m)
            # every result the operation builds comes from a constructing helper of the class: `return self.h(...)` or `x = self.h(...)`
            sites_d = [n_.value for n_ in walk_no_nested(fn_m) if isinstance(n_, (ast.Return, ast.Assign)) and isinstance(n_.value, ast.Call)
                       and isinstance(n_.value.func, ast.Attribute) and isinstance(n_.value.func.value, ast.Name) and n_.value.func.value.id == "self"
                       and n_.value.func.attr in by_method and n_.value.func.attr not in OPS] if fn_m is not None else []
            got = []
            ok_d = bool(sites_d)
            for c_ in sites_d:
                h = c_.func.attr
                from .core import bind_args
                bound = bind_args(c_, by_method[h][0].fn)
                own_params = {a_.arg for a_ in fn_m.args.args}
                for cl in classes_of(by_method[h]):
                    if cl.startswith("param:"):
                        p_, _, post = cl[6:].partition(">")
                        a_ = bound.get(p_)
                        if isinstance(a_, ast.Name) and a_.id == "self":
                            cl = "self" + (">" + post if post else "")
                        elif isinstance(a_, ast.Name) and a_.id in own_params:
                            cl = "param:" + a_.id + (">" + post if post else "")
                        else:
                            cl = "?" + cl
                    # relabelling of the bound result in the operation itself (set_units_from_list_to_*)
                    p_c = getattr(c_, "_parent", None)
                    if isinstance(p_c, ast.Assign) and len(p_c.targets) == 1 and isinstance(p_c.targets[0], ast.Name):
                        class _B:
                            pass
                        b_ = _B()
                        b_.bound, b_.fn = p_c.targets[0].id, fn_m
                        cl += post_relabel(b_)
                    got.append(cl)
            if not ok_d:
                raise AnalysisError(f"Food.{m} no longer constructs a Food (operation table out of date)")
            delegated[m] = (fn_m, got)
    for m, (fn_m, got) in delegated.items():
        want = sorted(OPS[m])
        rep.check(set(got) == set(want), rule, f"Food.{m}",
                  f"result labels {sorted(got)} are not the ones this operation must produce {want} "
                  "(self = the operand's own labels; >total/>element = relabelled for a sum/one month)",
                  loc=loc(FOOD, fn_m))
    for m, cs in by_method.items():
        if m == "__mul__":
            continue  # C11.MUL
        got = classes_of(cs)
        if m not in OPS:
            rep.info(rule, f"Food.{m}: construction(s) with labels {got} not in the operation table (not judged)")
            continue
        want = sorted(OPS[m])
        rep.check(set(got) == set(want), rule, f"Food.{m}",
                  f"result labels {sorted(got)} are not the ones this operation must produce {want} "
                  "(self = the operand's own labels; >total/>element = relabelled for a sum/one month)",
                  loc=loc(FOOD, cs[0].fn))
    rep.require_min(rule, 20)


# =============================================================================== C11.MUL


def mul(food, rep, index=None):
    """Food.__mul__ evaluated for every combination of (this a series?, other a Food / a number / an array, other a series?, this a ratio?,
    other a ratio?): the product carries the units of the non-ratio factor (this quantity's units when the other is the ratio, the other's
    when only this one is), Food x number keeps this quantity's units (x array: + ' each month'), and the three numbers are the lane-wise
    products.  Helper methods of Food that __mul__ calls are followed, so extracting or inlining them changes nothing."""
    from .symx import Interp, Obj, Path, PDict, Opaque, Unsupported, explore, Abort, canon, _Return
    from .rat import Rat
    rule = "C11.MUL"
    fn = food.get("__mul__")
    if fn is None:
        raise AnalysisError("Food.__mul__ missing")
    cls = index.cls(FOOD, "Food") if index is not None else None
    ucls = index.cls(UC, "UnitConversions") if index is not None else None
    oname = fn.args.args[1].arg
    n_ok = 0
    seen_cases = set()
    for kind in ("food", "number", "array"):
        def runit(it, kind=kind):
            it.classes = {"Food": cls, "UnitConversions": ucls}

            def mk(name):
                return Obj(cls, {"kcals": Rat.atom((name, "kcals")), "fat": Rat.atom((name, "fat")), "protein": Rat.atom((name, "protein")),
                                 "kcals_units": Path((name, "kcals_units")), "fat_units": Path((name, "fat_units")),
                                 "protein_units": Path((name, "protein_units"))}, name)

            me = mk("self")
            other = mk("other") if kind == "food" else Rat.atom(("number",)) if kind == "number" else Opaque("ndarray")

            def hook(interp, d, a, kw, node):
                f = node.func
                if isinstance(f, ast.Attribute) and f.attr in ("is_a_ratio", "is_list_monthly") and not a:
                    recv = interp.eval(f.value, interp.call_env)
                    return interp.fork(f"{getattr(recv, 'name', canon(recv))}.{f.attr}()")
                if isinstance(f, ast.Attribute) and f.attr in ("validate_if_list", "make_sure_is_a_list", "make_sure_not_a_list", "make_sure_fat_protein_zero_if_kcals_is_zero"):
                    return None
                if isinstance(f, ast.Attribute) and f.attr in ("get_units", "get_units_from_element_to_list", "get_units_from_list_to_element"):
                    recv = interp.eval(f.value, interp.call_env)
                    return Opaque(f"{getattr(recv, 'name', '?')}.{f.attr}()")
                if d == "isinstance" and len(a) == 2:
                    tn = a[1].name if isinstance(a[1], Opaque) else canon(a[1])
                    if "Food" in tn:
                        return isinstance(a[0], Obj)
                    if "ndarray" in tn:
                        return isinstance(a[0], Opaque) and a[0].name == "ndarray"
                    if isinstance(a[0], Rat):
                        return tn.split(".")[-1] in ("int", "float") or "int" in tn or "float" in tn
                    return False
                if d == "Food":
                    names = ["kcals", "fat", "protein", "kcals_units", "fat_units", "protein_units"]
                    out = {n_: v for n_, v in zip(names, a)}
                    out.update(kw)
                    return PDict(out)
                if d in ("np.array", "np.asarray") and len(a) == 1:
                    return a[0]
                if d == "np.multiply" and len(a) == 2:
                    return interp.binop(ast.Mult(), a[0], a[1], node)
                if d == "type" and len(a) == 1:
                    return Opaque("type-of-" + canon(a[0]))
                return NotImplemented

            it.call_hook = hook
            orig_binop = it.binop

            def binop(op, x, y, node):
                if isinstance(op, ast.Mult) and (isinstance(x, Opaque) or isinstance(y, Opaque)):
                    xs = x if isinstance(x, Opaque) else y
                    other_ = y if isinstance(x, Opaque) else x
                    return interp_mul_opaque(it, other_, xs)
                return orig_binop(op, x, y, node)

            it.binop = binop
            return it.call_function(fn, [other], {}, me), me, other

        try:
            leaves = explore(runit, month_classes=False)
        except Unsupported as e:
            raise AnalysisError(f"Food.__mul__ outside the analysed fragment ({kind}): {e}")
        for _, dec, res, it in leaves:
            if isinstance(res, Abort):
                continue  # an assertion refuses this combination
            out, me, other = res
            where = f"{kind}; " + ", ".join(f"{k}={'T' if v else 'F'}" for k, v in dec.items())
            if not isinstance(out, PDict):
                rep.violation(rule, f"Food.__mul__[{where}]", "the product is not a Food(...) construction", loc=loc(FOOD, fn))
                continue
            labs = [out.d.get(l) for l in LABELS]
            if kind == "food":
                s_ratio = dec.get("self.is_a_ratio()")
                o_ratio = dec.get("other.is_a_ratio()")
                if o_ratio:
                    want = [Path(("self", l)) for l in LABELS]
                elif s_ratio:
                    want = [Path(("other", l)) for l in LABELS]
                else:
                    want = None  # neither is known to be a ratio on this path: must have been refused
                ok = want is not None and [canon(x) for x in labs] == [canon(x) for x in want]
                nums_ok = all(isinstance(out.d.get(l), Rat) and out.d[l] == Rat.atom(("self", l)) * Rat.atom(("other", l)) for l in LANES)
                case = ("food", s_ratio, o_ratio, dec.get("self.is_list_monthly()"), dec.get("other.is_list_monthly()"))
                rep.check(ok and nums_ok, rule, f"Food.__mul__[Food x Food: {_case(case)}]",
                          "Food x Food: the product must carry the units of the factor that is not the ratio (this quantity's units when the other "
                          "one is the ratio, the other's when only this one is) and multiply lane by lane; a combination where neither is a ratio must "
                          "be refused" + ("" if ok else f" - labels are {[canon(x) for x in labs]}"), loc=loc(FOOD, fn))
            else:
                suffix = " each month" if (kind == "array" and dec.get("self.is_list_monthly()") is False) else ""
                want = [("{self." + l + "}" + suffix) if suffix else canon(Path(("self", l))) for l in LABELS]
                got = [x if isinstance(x, str) else canon(x) for x in labs]
                ok = got == want
                case = (kind, dec.get("self.is_list_monthly()"))
                rep.check(ok, rule, f"Food.__mul__[Food x {kind}: this a series={case[1]}]",
                          "Food x number must keep the operand's labels (x ndarray on a single value: + ' each month')" + ("" if ok else f" - labels are {got}"),
                          loc=loc(FOOD, fn))
            seen_cases.add(case)
            n_ok += 1
    r = food.get("__rmul__")
    ok = r is not None and any(isinstance(s_, ast.Return) and norm_src(s_.value) in (f"self.__mul__({r.args.args[1].arg})", f"self * {r.args.args[1].arg}") for s_ in r.body)
    rep.check(ok, rule, "Food.__rmul__", "__rmul__ no longer delegates to __mul__ (ratio on the left would be labelled differently)",
              loc=loc(FOOD, r) if r else FOOD)
    if n_ok < 8:
        raise AnalysisError(f"Food.__mul__: only {n_ok} completing combinations analysed")
    rep.require_min(rule, 7)


def _case(c):
    kind, s_ratio, o_ratio, s_list, o_list = c
    f = lambda v: "?" if v is None else ("T" if v else "F")
    return f"this series={f(s_list)}, other series={f(o_list)}, this ratio={f(s_ratio)}, other ratio={f(o_ratio)}"


def interp_mul_opaque(it, x, arr):
    from .rat import Rat
    from .symx import canon
    return Rat.atom(("x-array", canon(x)))


# =============================================================================== C11.LANE

LANE_EXCEPTIONS = {
    "get_consumed_amount": "takes the maximum over the three lanes by design (units of the limiting nutrient)",
}


def lanes(constructions, food, uc, rep):
    rule = "C11.LANE"
    sites = list(constructions)
    for name, fn in uc.items():
        for c in ast.walk(fn):
            if isinstance(c, ast.Call) and isinstance(c.func, ast.Name) and c.func.id == "Food":
                sites.append(Construction("UnitConversions." + name, fn, c))
    for c in sites:
        if c.method in LANE_EXCEPTIONS:
            rep.info(rule, f"Food.{c.method} exempt: {LANE_EXCEPTIONS[c.method]}")
            continue
        defs = local_defs(c.fn)
        params = {a.arg for a in c.fn.args.args}
        bad = []
        for lane, lab in zip(LANES, LABELS):
            v = c.args.get(lane)
            if v is not None:
                used = {a for _, a in attrs_used(closure_exprs(v, defs, params), LANES)}
                cross = used - {lane}
                if cross:
                    bad.append(f"{lane} value depends on {sorted(cross)}")
                # conversion locals: <lane>_conversion / index into multiplier list must match the lane
                for e in closure_exprs(v, defs, params):
                    for n in ast.walk(e):
                        if isinstance(n, ast.Name) and n.id.endswith("_conversion"):
                            owner = n.id.split("_conversion")[0].split("_")[-1]
                            if owner in LANES and owner != lane:
                                bad.append(f"{lane} value scaled by {n.id}")
            e = c.args.get(lab)
            if e is not None:
                usedl = {a for _, a in attrs_used(closure_exprs(e, defs, params), LABELS)}
                crossl = usedl - {lab}
                if crossl:
                    bad.append(f"{lab} taken from {sorted(crossl)}")
                for x in closure_exprs(e, defs, params):
                    for n in ast.walk(x):
                        if isinstance(n, ast.Name) and n.id.startswith(("new_units_", "to_units_")):
                            owner = n.id.split("_")[-1]
                            if owner in LANES and owner != lane:
                                bad.append(f"{lab} taken from {n.id}")
        where = f"{c.method}@{norm_src(c.call)[:60]}"
        rep.check(not bad, rule, f"Food(...) in {c.method}#{_ordinal(c, sites)}",
                  "nutrient lanes cross: " + "; ".join(bad), loc=loc(FOOD if not c.method.startswith("UnitConversions") else UC, c.call),
                  detail=where)
    # label transformers of UnitConversions (get_units_from_list_to_total, ...): label k of the result is computed from label k only
    # (found by what they do - a triple each of whose entries is computed from the labels - wherever it is written: returned by a getter,
    #  or, after the getter was merged into its only caller, assigned there)
    n_transformers = 0
    for name, fn in uc.items():
        defs = local_defs(fn)
        params = {a.arg for a in fn.args.args}
        triples = []
        for t_ in walk_no_nested(fn):
            if isinstance(t_, (ast.List, ast.Tuple)) and len(t_.elts) == 3 and isinstance(t_.ctx, ast.Load):
                used3 = [{a for _, a in attrs_used(closure_exprs(e, defs, params), LABELS)} for e in t_.elts]
                if all(used3):
                    triples.append((t_, used3))
        if not triples:
            continue
        n_transformers += 1
        bad = []
        for t_, used3 in triples:
            for k, usedl in enumerate(used3):
                if usedl - {LABELS[k]}:
                    bad.append(f"label {k} ({LABELS[k]}) is computed from {sorted(usedl - {LABELS[k]})}")
        rep.check(not bad, rule, f"UnitConversions.{name}: label k from label k",
                  "the three unit labels are not transformed independently: " + "; ".join(bad) + " (correct only while the three labels happen to "
                  "have the same length / shape)", loc=loc(UC, fn))
    if n_transformers < 3:
        raise AnalysisError(f"label transformers of UnitConversions: {n_transformers} found, 3 confirmed by hand (list->total, list->element, element->list)")
    # operations that build their result through a constructing helper of the class: the helper's construction (judged above) is theirs
    constructing = {c.method for c in constructions}
    for name, fn in food.items():
        if name in constructing:
            continue
        for n_ in walk_no_nested(fn):
            if isinstance(n_, ast.Call) and isinstance(n_.func, ast.Attribute) and isinstance(n_.func.value, ast.Name) and n_.func.value.id == "self" \
                    and n_.func.attr in constructing and isinstance(getattr(n_, "_parent", None), (ast.Return, ast.Assign)):
                rep.ok(rule, f"Food.{name}: built by Food.{n_.func.attr}", detail="lane obligation carried by the helper's construction")
                break
    rep.require_min(rule, 30)


def _ordinal(c, sites):
    same = [s for s in sites if s.method == c.method]
    same.sort(key=lambda s: (s.call.lineno, s.call.col_offset))
    return same.index(c)


# =============================================================================== C11.PURE

MUTATORS = {"__init__", "reset_food", "set_units", "set_units_from_list_to_total", "set_units_from_list_to_element",
            "set_units_from_element_to_list", "__setitem__", "set_to_zero_after_month", "get_units"}
MUTATING_CALLS = {"set_units", "set_units_from_list_to_total", "set_units_from_list_to_element",
                  "set_units_from_element_to_list", "reset_food", "set_to_zero_after_month", "__setitem__", "sort", "fill",
                  "resize", "put", "itemset", "append", "extend", "insert", "pop", "clear", "remove", "reverse"}
FRESH_CALLS = ("np.roll", "np.array", "np.zeros", "np.where", "np.abs", "np.round", "np.minimum", "np.maximum",
               "np.divide", "np.multiply", "copy.deepcopy", "copy.copy", "np.copy", "Food", "sum", "min", "max", "list")


VIEW_CALLS = ("np.asarray", "np.asanyarray", "np.ascontiguousarray", "np.asfarray", "np.ravel", "np.reshape", "np.squeeze",
              "np.transpose", "np.atleast_1d", "np.atleast_2d", "np.expand_dims", "np.flip", "np.flipud", "np.fliplr", "np.diagonal",
              "np.broadcast_to", "np.swapaxes", "np.moveaxis", "np.nan_to_num_inplace", "numpy.asarray", "memoryview")
VIEW_METHODS = ("view", "reshape", "ravel", "squeeze", "transpose", "swapaxes", "astype_view", "diagonal")


def label_list_purity(food, uc, rep):
    """the combined label list (self.units) of a quantity is changed by the label setters only: no other method of Food / UnitConversions
    changes it in place - itself, through a local that is the same list, or by handing it to a routine that changes the list it is given
    (followed through the methods of the two classes)"""
    rule = "C11.PURE"
    from .c13 import param_mutations
    from .core import bind_args
    methods = dict(uc)
    methods.update(food)
    memo = {}

    def mutates(fn, param, depth=0):
        key = (fn.name, param)
        if key in memo:
            return memo[key]
        memo[key] = []
        out = [f"{fn.name}: {m_}" for m_ in param_mutations(fn, param)]
        alias = {param} | {st.targets[0].id for st in walk_no_nested(fn) if isinstance(st, ast.Assign) and len(st.targets) == 1
                           and isinstance(st.targets[0], ast.Name) and isinstance(st.value, ast.Name) and st.value.id == param}
        if depth < 4:
            for c in walk_no_nested(fn):
                if isinstance(c, ast.Call) and isinstance(c.func, ast.Attribute) and isinstance(c.func.value, ast.Name) \
                        and c.func.value.id in ("self", "UnitConversions", "Food") and c.func.attr in methods and methods[c.func.attr] is not fn:
                    g = methods[c.func.attr]
                    static = any(isinstance(d_, ast.Name) and d_.id == "staticmethod" for d_ in g.decorator_list)
                    for p_, a_ in bind_args(c, g, method=not static).items():
                        if isinstance(a_, ast.Name) and a_.id in alias:
                            out += mutates(g, p_, depth + 1)
        memo[key] = out
        return out

    n = 0
    for name, fn in methods.items():
        if name in MUTATORS:
            continue
        # locals that are the label list itself
        alias = {st.targets[0].id for st in walk_no_nested(fn) if isinstance(st, ast.Assign) and len(st.targets) == 1
                 and isinstance(st.targets[0], ast.Name) and _is_self_attr(st.value, ("units",))}
        bad = []
        for c in walk_no_nested(fn):
            if isinstance(c, ast.Call) and isinstance(c.func, ast.Attribute) and isinstance(c.func.value, ast.Name) \
                    and c.func.value.id in ("self", "UnitConversions", "Food") and c.func.attr in methods and methods[c.func.attr] is not fn:
                g = methods[c.func.attr]
                static = any(isinstance(d_, ast.Name) and d_.id == "staticmethod" for d_ in g.decorator_list)
                for p_, a_ in bind_args(c, g, method=not static).items():
                    if (isinstance(a_, ast.Name) and a_.id in alias) or _is_self_attr(a_, ("units",)):
                        bad += mutates(g, p_)
        for a_ in alias:
            bad += [m_ for m_ in param_mutations(fn, a_)]
        if alias or bad:
            n += 1
            rep.check(not bad, rule, f"{name}: label list handed on is not changed in place",
                      "the quantity's own combined label list is changed in place by a routine it is handed to (" + "; ".join(sorted(set(bad))[:3]) +
                      "): converting a quantity relabels the operand itself, and its list no longer agrees with its three labels",
                      loc=loc(UC if name in uc else FOOD, fn))
    if n == 0:
        rep.info(rule, "no method reads the combined label list into a local or hands it on")


def purity(food, rep):
    rule = "C11.PURE"
    for name, fn in food.items():
        if name in MUTATORS or any(isinstance(d, ast.Name) and d.id == "classmethod" for d in fn.decorator_list):
            continue
        params = [a.arg for a in fn.args.args]
        operands = set(params)
        # taint: locals that alias an operand's storage
        alias = set()
        changed = True

        def is_operand_storage(e):
            if isinstance(e, ast.Attribute) and isinstance(e.value, ast.Name) and e.value.id in operands:
                return True
            if isinstance(e, ast.Name) and (e.id in alias or e.id in operands):
                return True
            if isinstance(e, ast.Subscript):
                return is_operand_storage(e.value)  # slices are views
            if isinstance(e, ast.Call):
                d = dotted(e.func) or ""
                # calls that may hand back the SAME buffer (no copy when dtype/shape already fit)
                if d in VIEW_CALLS and e.args and is_operand_storage(e.args[0]):
                    return True
                if d in ("np.array", "numpy.array") and e.args and is_operand_storage(e.args[0]) and any(
                        k.arg == "copy" and isinstance(k.value, ast.Constant) and k.value.value is False for k in e.keywords):
                    return True
                if isinstance(e.func, ast.Attribute) and e.func.attr in VIEW_METHODS and is_operand_storage(e.func.value):
                    return True
            if isinstance(e, ast.Attribute) and e.attr in ("T", "flat", "real") and is_operand_storage(e.value):
                return True
            return False

        while changed:
            changed = False
            for st in walk_no_nested(fn):
                if isinstance(st, ast.Assign) and len(st.targets) == 1 and isinstance(st.targets[0], ast.Name):
                    if st.targets[0].id not in alias and is_operand_storage(st.value):
                        alias.add(st.targets[0].id)
                        changed = True
        bad = []
        for st in walk_no_nested(fn):
            if isinstance(st, (ast.Assign, ast.AugAssign)):
                tgts = st.targets if isinstance(st, ast.Assign) else [st.target]
                for t in tgts:
                    for e in _targets(t):
                        if isinstance(e, ast.Attribute) and isinstance(e.value, ast.Name) and e.value.id in operands:
                            bad.append(f"store to {norm_src(e)}")
                        if isinstance(e, ast.Subscript) and is_operand_storage(e.value):
                            bad.append(f"in-place store {norm_src(e)}")
                        if isinstance(st, ast.AugAssign) and isinstance(e, ast.Name) and e.id in alias:
                            bad.append(f"in-place update of alias {e.id}")
            if isinstance(st, ast.Call) and isinstance(st.func, ast.Attribute) and st.func.attr in MUTATING_CALLS:
                base = st.func.value
                if isinstance(base, ast.Name) and base.id in operands:
                    bad.append(f"mutating call {norm_src(st.func)}()")
                elif is_operand_storage(base) and not isinstance(base, ast.Name):
                    bad.append(f"mutating call {norm_src(st.func)}()")
                elif isinstance(base, ast.Name) and base.id in alias:
                    bad.append(f"mutating call {norm_src(st.func)}() on an alias")
            if isinstance(st, ast.Call):
                for k in st.keywords:
                    if k.arg == "out" and is_operand_storage(k.value):
                        bad.append(f"numpy out= into {norm_src(k.value)}")
            if isinstance(st, ast.Delete):
                for t in st.targets:
                    if is_operand_storage(t) or (isinstance(t, ast.Subscript) and is_operand_storage(t.value)):
                        bad.append(f"del {norm_src(t)}")
        rep.check(not bad, rule, f"Food.{name}", "the operation modifies an operand: " + "; ".join(sorted(set(bad))),
                  loc=loc(FOOD, fn))
    rep.require_min(rule, 40)


# =============================================================================== C11.GUARD

GUARD_EXCEPTIONS = {
    "ensure_other_list_zero_if_this_is_zero": "compares with zero only (zero is unit-free, as its comment says)",
    "get_consumed_amount": "second operand is a dimensionless nutrient ratio by contract",
    "__setitem__": "declared mutator: stores an element into a series",
    "get_remaining_food_needed_and_amount_used": "delegates to operators that assert",
}


def guards(food, rep):
    rule = "C11.GUARD"
    FOOD_METHODS.clear()
    FOOD_METHODS.update(food)
    # accessors: a method that reads the numbers of one operand only (none of self's, no second operand) combines nothing - it hands that
    # operand's numbers back; a call of it with an operand counts, in the caller, as a read of that operand's numbers
    ACCESSORS.clear()
    for name, fn in food.items():
        if any(isinstance(d, ast.Name) and d.id == "staticmethod" for d in fn.decorator_list):
            continue
        params = [a.arg for a in fn.args.args if a.arg != "self"]
        lane_bases = {node.value.id for node in walk_no_nested(fn) if isinstance(node, ast.Attribute) and node.attr in LANES
                      and isinstance(node.value, ast.Name)}
        if len(lane_bases) == 1 and next(iter(lane_bases)) in params:
            ACCESSORS[name] = params.index(next(iter(lane_bases)))
    for name, fn in food.items():
        params = [a.arg for a in fn.args.args if a.arg != "self"]
        if any(isinstance(d, ast.Name) and d.id == "staticmethod" for d in fn.decorator_list):
            params = [a.arg for a in fn.args.args]
        if name in ACCESSORS:
            rep.info(rule, f"Food.{name}: reads one operand's numbers only (accessor); its callers carry the guard obligation")
            continue
        readers = {}
        for node in walk_no_nested(fn):
            if isinstance(node, ast.Attribute) and node.attr in LANES and isinstance(node.value, ast.Name) \
                    and node.value.id in params and node.value.id != "self":
                readers.setdefault(node.value.id, []).append(node)
            if isinstance(node, ast.Call) and _accessor_operand(node) in params and _accessor_operand(node) != "self":
                readers.setdefault(_accessor_operand(node), []).append(node)
        if not readers:
            # the operand may be handed to a helper of the class that reads its numbers: that helper is judged under its own name
            for c in walk_no_nested(fn):
                if isinstance(c, ast.Call) and isinstance(c.func, ast.Attribute) and isinstance(c.func.value, ast.Name) and c.func.value.id == "self" \
                        and c.func.attr in food and c.func.attr != name:
                    callee = food[c.func.attr]
                    cparams = [a.arg for a in callee.args.args if a.arg != "self"]
                    for i, a in enumerate(c.args):
                        if isinstance(a, ast.Name) and a.id in params and i < len(cparams) and any(
                                isinstance(n_, ast.Attribute) and n_.attr in LANES and isinstance(n_.value, ast.Name) and n_.value.id == cparams[i]
                                for n_ in walk_no_nested(callee)):
                            rep.ok(rule, f"Food.{name}({a.id}): read by Food.{c.func.attr}", detail="guard obligation carried by the helper")
            continue
        if name in GUARD_EXCEPTIONS:
            rep.info(rule, f"Food.{name} exempt: {GUARD_EXCEPTIONS[name]}")
            continue
        for p in readers:
            if (name, p) in GUARD_PARAM_EXCEPTIONS:
                rep.info(rule, f"Food.{name}({p}) exempt: {GUARD_PARAM_EXCEPTIONS[(name, p)]}")
                continue
            unguarded = guard_paths(fn, p, name)
            rep.check(not unguarded, rule, f"Food.{name}({p})",
                      f"the numbers of operand `{p}` are read on a path that no unit-equality assertion precedes "
                      "(quantities with different units would be combined/compared silently)", loc=loc(FOOD, fn),
                      detail="; ".join(sorted(unguarded))[:300])
    rep.require_min(rule, 15)


GUARD_PARAM_EXCEPTIONS = {
    ("replace_if_list_with_zeros_is_zero", "list_with_zeros"): "only compared with zero (zero is unit-free)",
}


FOOD_METHODS = {}
_INL = {}


def _inl(fn):
    from .core import Inliner
    if id(fn) not in _INL:
        _INL[id(fn)] = Inliner(fn)
    return _INL[id(fn)]


def is_unit_assert(st, p, method, fn=None, depth=0):
    """an assertion that the operand's units equal this quantity's (or, for multiplication, that one of the two is a dimensionless
    ratio) - either as an `assert` statement, or inside a helper method of Food that this statement calls with the operand (one level)"""
    if isinstance(st, ast.Assert):
        t = _inl(fn).src(st.test) if fn is not None else norm_src(st.test)
        if method == "__mul__" or "is_a_ratio()" in t:
            return "is_a_ratio()" in t or "is_the_ratio" in t
        if method == "min_elementwise":
            return "food1.units" in t and "food2.units" in t
        mentions_p = (p + ".units") in t or (p + ".get_units") in t
        mentions_self = "self.units" in t or "self.get_units" in t
        return mentions_p and mentions_self and "==" in t
    if depth == 0 and isinstance(st, (ast.Assign, ast.Expr, ast.AnnAssign)) and getattr(st, "value", None) is not None:
        for c in ast.walk(st.value):
            if isinstance(c, ast.Call) and isinstance(c.func, ast.Attribute) and isinstance(c.func.value, ast.Name) and c.func.value.id == "self" \
                    and c.func.attr in FOOD_METHODS:
                callee = FOOD_METHODS[c.func.attr]
                cparams = [a.arg for a in callee.args.args if a.arg != "self"]
                for i, a in enumerate(c.args):
                    if isinstance(a, ast.Name) and a.id == p and i < len(cparams):
                        # an unconditional (top-level) assertion of the helper
                        if any(is_unit_assert(s2, cparams[i], method if method == "__mul__" else c.func.attr, callee, 1) for s2 in callee.body):
                            return True
    return False


ACCESSORS = {}


def _accessor_operand(call):
    """name handed to an accessor method (self.<accessor>(..., name, ...)) at the accessor's operand position, else None"""
    if isinstance(call.func, ast.Attribute) and isinstance(call.func.value, ast.Name) and call.func.value.id == "self" and call.func.attr in ACCESSORS:
        i = ACCESSORS[call.func.attr]
        if i < len(call.args) and isinstance(call.args[i], ast.Name):
            return call.args[i].id
    return None


def _reads(node, p):
    for n in ast.walk(node):
        if isinstance(n, ast.Attribute) and n.attr in LANES and isinstance(n.value, ast.Name) and n.value.id == p:
            return True
        if isinstance(n, ast.Call) and _accessor_operand(n) == p:
            return True
    return False


def guard_paths(fn, p, method):
    """all paths, for the four (self series?, operand series?) shapes and consistently decided other tests: every
    statement that reads p's numbers must be preceded by a unit assertion on that path"""
    bad = set()

    class Done(Exception):
        pass

    def const_test(t, shapes, decided):
        """partial evaluation of an if-test; returns True/False/None"""
        if isinstance(t, ast.BoolOp):
            vals = [const_test(v, shapes, decided) for v in t.values]
            if isinstance(t.op, ast.And):
                if any(v is False for v in vals):
                    return False
                return True if all(v is True for v in vals) else None
            if any(v is True for v in vals):
                return True
            return False if all(v is False for v in vals) else None
        if isinstance(t, ast.UnaryOp) and isinstance(t.op, ast.Not):
            v = const_test(t.operand, shapes, decided)
            return None if v is None else (not v)
        if isinstance(t, ast.Call) and isinstance(t.func, ast.Attribute) and t.func.attr == "is_list_monthly":
            who = dotted(t.func.value)
            if who in shapes:
                return shapes[who]
        key = norm_src(t)
        return decided.get(key)

    def run(stmts, shapes, decided, asserted, cont):
        """cont: continuation called with (decided, asserted) when the block falls through"""
        if not stmts:
            return cont(decided, asserted)
        st, rest = stmts[0], stmts[1:]
        if is_unit_assert(st, p, method, fn):
            return run(rest, shapes, decided, True, cont)
        if isinstance(st, ast.If):
            if _reads(st.test, p) and not asserted:
                bad.add(f"line {st.lineno}")
            v = const_test(st.test, shapes, decided)
            branches = [(True, st.body), (False, st.orelse)] if v is None else [(v, st.body if v else st.orelse)]
            for val, blk in branches:
                d2 = dict(decided)
                if v is None:
                    d2[norm_src(st.test)] = val
                if norm_src(st.test) == f"isinstance({p}, Food)" and val is False:
                    # operand is not a Food on this path: nothing of it is read as a quantity
                    continue
                run(list(blk), shapes, d2, asserted, lambda d3, a3: run(rest, shapes, d3, a3, cont))
            return
        if isinstance(st, (ast.Return, ast.Raise)):
            if _reads(st, p) and not asserted:
                bad.add(f"line {st.lineno}")
            return  # path ends
        if isinstance(st, (ast.For, ast.While)):
            if _reads(st, p) and not asserted:
                bad.add(f"line {st.lineno}")
            return run(rest, shapes, decided, asserted, cont)
        if isinstance(st, ast.With):
            return run(list(st.body) + rest, shapes, decided, asserted, cont)
        if _reads(st, p) and not asserted:
            bad.add(f"line {st.lineno}")
        return run(rest, shapes, decided, asserted, cont)

    body = list(fn.body)
    for s_self in (True, False):
        for s_p in (True, False):
            shapes = {"self": s_self, p: s_p}
            if method == "min_elementwise":
                shapes = {"food1": s_self, "food2": s_p}
            run(body, shapes, {}, False, lambda d, a: None)
    return bad


# =============================================================================== C11.PRED

PREDICATES = ["__eq__", "__ne__", "all_greater_than", "all_less_than", "any_greater_than", "any_less_than",
              "all_greater_than_or_equal_to", "all_less_than_or_equal_to", "any_greater_than_or_equal_to",
              "any_less_than_or_equal_to", "is_never_negative", "all_equals_zero", "any_equals_zero",
              "all_greater_than_zero", "any_greater_than_zero", "all_greater_than_or_equal_to_zero"]


class BoolAbs:
    """propositional abstraction of one arm of a predicate"""

    def __init__(self, fn, shape):
        self.fn = fn
        self.shape = shape  # True: operands are one-month series; False: single values

    def formula(self, block, env=None):
        """formula of the value returned by executing `block` (paths are followed through both arms of every undecided test, so
        early returns and branch-local assignments need no special form); None when a path falls off the end"""
        env = dict(env) if env is not None else {}
        stmts = list(block)
        if not stmts:
            return None
        st, rest = stmts[0], stmts[1:]
        if isinstance(st, ast.Assign) and len(st.targets) == 1 and isinstance(st.targets[0], ast.Name):
            env[st.targets[0].id] = self.expr(st.value, env)
            return self.formula(rest, env)
        if isinstance(st, ast.If):
            cond = self.expr(st.test, env)
            if _is_const(cond):
                return self.formula(list(st.body if evalf(cond, {}) else st.orelse) + rest, env)
            r1 = self.formula(list(st.body) + rest, env)
            r2 = self.formula(list(st.orelse) + rest, env)
            if r1 is None or r2 is None:
                return None
            return ("ite", cond, r1, r2)
        if isinstance(st, ast.Return):
            if st.value is None:
                raise AnalysisError(f"predicate {self.fn.name}: bare return")
            return self.expr(st.value, env)
        if isinstance(st, (ast.Expr, ast.Assert, ast.FunctionDef, ast.Pass)):
            return self.formula(rest, env)
        raise AnalysisError(f"predicate {self.fn.name}: unsupported statement {type(st).__name__}")

    def _last_assign(self, block, name, env):
        val = env.get(name, ("const", False))
        e = dict(env)
        for s in block:
            if isinstance(s, ast.Assign) and isinstance(s.targets[0], ast.Name):
                v = self.expr(s.value, e)
                e[s.targets[0].id] = v
                if s.targets[0].id == name:
                    val = v
        return val

    def expr(self, e, env):
        if isinstance(e, ast.BoolOp):
            return ("and" if isinstance(e.op, ast.And) else "or",) + tuple(self.expr(v, env) for v in e.values)
        if isinstance(e, ast.UnaryOp) and isinstance(e.op, ast.Not):
            return ("not", self.expr(e.operand, env))
        if isinstance(e, ast.Constant) and isinstance(e.value, bool):
            return ("const", e.value)
        if isinstance(e, ast.IfExp):
            cond = self.expr(e.test, env)
            if _is_const(cond):
                return self.expr(e.body if evalf(cond, {}) else e.orelse, env)
            return ("ite", cond, self.expr(e.body, env), self.expr(e.orelse, env))
        if isinstance(e, ast.Name):
            if e.id in env:
                return env[e.id]
            raise AnalysisError(f"predicate {self.fn.name}: unresolved name {e.id}")
        if isinstance(e, ast.Call) and isinstance(e.func, ast.Attribute) and e.func.attr == "is_list_monthly" and not e.args:
            return ("const", self.shape)
        d = dotted(e)
        if d in ("self.conversions.exclude_fat",):
            return ("not", ("flag", "include_fat"))
        if d in ("self.conversions.exclude_protein",):
            return ("not", ("flag", "include_protein"))
        if d in ("self.conversions.include_fat",):
            return ("flag", "include_fat")
        if d in ("self.conversions.include_protein",):
            return ("flag", "include_protein")
        # .all() / .any() over a one-month series is the identity
        if isinstance(e, ast.Call) and isinstance(e.func, ast.Attribute) and e.func.attr in ("all", "any") and not e.args:
            return self.expr(e.func.value, env)
        if isinstance(e, ast.Call) and dotted(e.func) in ("all", "any") and len(e.args) == 1 and isinstance(e.args[0], ast.GeneratorExp):
            g = e.args[0]
            if len(g.generators) == 1 and isinstance(g.generators[0].target, ast.Name) and not g.generators[0].ifs:
                # substitute the iterated series for the element variable
                var = g.generators[0].target.id
                series = g.generators[0].iter
                body = _subst_name(g.elt, var, series)
                return self.expr(body, env)
        if isinstance(e, ast.Call) and dotted(e.func) in ("bool", "np.bool_") and len(e.args) == 1:
            return self.expr(e.args[0], env)
        if isinstance(e, ast.Compare) and len(e.ops) == 1:
            return ("cmp", self.canon_cmp(e))
        raise AnalysisError(f"predicate {self.fn.name}: expression outside the boolean fragment: {norm_src(e)[:80]}")

    def _operand(self, e):
        """one spelling for the same operand: np.array(x) is x; round / np.round / np.around / a local one-line rounding helper are
        `round(x, <decimals>)` (no decimals given = 0)"""
        e = _strip_np(e)
        locals_ = {n.name: n for n in self.fn.body if isinstance(n, ast.FunctionDef)}

        class T(ast.NodeTransformer):
            def visit_Call(self, n):
                self.generic_visit(n)
                d = dotted(n.func) or ""
                if d in locals_ and len(locals_[d].body) == 1 and isinstance(locals_[d].body[0], ast.Return) and len(n.args) == len(locals_[d].args.args) \
                        and not n.keywords:
                    sub = dict(zip([a.arg for a in locals_[d].args.args], n.args))

                    class S(ast.NodeTransformer):
                        def visit_Name(self, x):
                            return sub.get(x.id, x)
                    return T().visit(S().visit(_detach(locals_[d].body[0].value)))
                if d in ("round", "np.round", "np.around", "np.round_"):
                    dec = n.args[1] if len(n.args) > 1 else next((k.value for k in n.keywords if k.arg in ("decimals", "ndigits")), ast.Constant(value=0))
                    return ast.Call(func=ast.Name(id="round", ctx=ast.Load()), args=[_strip_np(n.args[0]), dec], keywords=[])
                if d in ("np.array", "np.asarray") and len(n.args) == 1:
                    return n.args[0]
                return n

        return T().visit(_detach(e))

    def canon_cmp(self, e):
        op = {ast.Gt: ">", ast.Lt: "<", ast.GtE: ">=", ast.LtE: "<=", ast.Eq: "==", ast.NotEq: "!="}.get(type(e.ops[0]))
        if op is None:
            raise AnalysisError("comparison operator outside the fragment")
        left = self._operand(e.left)
        right = self._operand(e.comparators[0])
        # one orientation: a > b is b < a
        if op in (">", ">="):
            left, right, op = right, left, {">": "<", ">=": "<="}[op]

        def zero(x):
            return isinstance(x, ast.Constant) and x.value == 0 and not isinstance(x.value, bool)

        # normalise  (a - b) op 0  ==>  a op b   and   0 op (a - b)  ==>  b op a
        if isinstance(left, ast.BinOp) and isinstance(left.op, ast.Sub) and zero(right):
            left, right = _strip_np(left.left), _strip_np(left.right)
        elif isinstance(right, ast.BinOp) and isinstance(right.op, ast.Sub) and zero(left):
            left, right = _strip_np(right.right), _strip_np(right.left)
        lt, rt = norm_src(left), norm_src(right)
        if op in ("==", "!=") and lt > rt:
            lt, rt = rt, lt
        return f"{lt} {op} {rt}"


def _strip_np(e):
    while isinstance(e, ast.Call) and dotted(e.func) in ("np.array", "np.asarray") and len(e.args) == 1:
        e = e.args[0]
    return e


def _subst_name(expr, var, repl):
    class T(ast.NodeTransformer):
        def visit_Name(self, n):
            if n.id == var:
                return repl
            return n

    import copy as _c
    return T().visit(_c.deepcopy(_detach(expr)))


def _detach(e):
    # copy without parent links (deepcopy would follow them into the whole module)
    return ast.parse(ast.unparse(e), mode="eval").body


def _is_const(f):
    if f[0] == "const":
        return True
    if f[0] in ("flag", "cmp"):
        return False
    return all(_is_const(x) for x in f[1:] if isinstance(x, tuple))


def evalf(f, assign):
    k = f[0]
    if k == "const":
        return f[1]
    if k == "flag":
        return assign[f[1]]
    if k == "cmp":
        return assign[f[1]]
    if k == "not":
        return not evalf(f[1], assign)
    if k == "and":
        return all(evalf(x, assign) for x in f[1:])
    if k == "or":
        return any(evalf(x, assign) for x in f[1:])
    if k == "ite":
        return evalf(f[2], assign) if evalf(f[1], assign) else evalf(f[3], assign)
    raise AnalysisError("bad formula")


def atoms_of(f, acc):
    if f[0] == "cmp":
        acc.add(f[1])
    elif f[0] in ("not", "and", "or", "ite"):
        for x in f[1:]:
            if isinstance(x, tuple):
                atoms_of(x, acc)
    return acc


def predicates(food, rep, index=None):
    rule = "C11.PRED"
    for name in PREDICATES:
        fn = food.get(name)
        if fn is None:
            raise AnalysisError(f"predicate Food.{name} missing")
        if index is not None:
            # a predicate that hands over to a shared implementation (parameterised by operator.gt / lt / ge) is read with it inlined
            fn = index.flat_func(FOOD, "Food." + name, keep=("is_list_monthly", "validate_if_list"))
        body = [s for s in fn.body if not (isinstance(s, ast.Expr) and isinstance(s.value, ast.Constant))]
        if "is_list_monthly" not in ast.unparse(fn):
            raise AnalysisError(f"predicate Food.{name}: no is_list_monthly() case split")
        fl = BoolAbs(fn, True).formula(body, {})
        fs = BoolAbs(fn, False).formula(body, {})
        if fl is None or fs is None:
            raise AnalysisError(f"predicate Food.{name}: an arm does not end in a return")
        al, as_ = atoms_of(fl, set()), atoms_of(fs, set())
        if al != as_:
            rep.violation(rule, f"Food.{name}",
                          "the one-month-series arm and the single-value arm compare different things: "
                          f"series-only {sorted(al - as_)}, scalar-only {sorted(as_ - al)}", loc=loc(FOOD, fn))
            continue
        names = sorted(al) + ["include_fat", "include_protein"]
        diff = []
        for vals in itertools.product([False, True], repeat=len(names)):
            a = dict(zip(names, vals))
            if evalf(fl, a) != evalf(fs, a):
                diff.append({k: v for k, v in a.items()})
        rep.check(not diff, rule, f"Food.{name}",
                  f"single value and equivalent one-month series disagree on {len(diff)} of {2 ** len(names)} valuations, "
                  f"e.g. {_fmt(diff[0]) if diff else ''}", loc=loc(FOOD, fn))
    rep.require_min(rule, 16)


def _fmt(a):
    return ", ".join(f"{k}={'T' if v else 'F'}" for k, v in a.items())


def describe(rep):
    rep.explanation = (
        "AST-level analyses of Food and UnitConversions (nothing executed). C11.TS: typestate automaton for the combined "
        "label list (stale after any store to a label, coherent after `self.units = [...]`/set_units/get_units) must be "
        "coherent at every exit of every method that rewrites labels. C11.LBL/C11.MUL: the label arguments of every "
        "Food(...) construction are resolved through locals and compared with the operation table (self / ratio / param / "
        "relabelled >total or >element); in __mul__ the labels selected by is_a_ratio() must be the ones passed on. "
        "C11.LANE: transitive flow through locals into each kcals/fat/protein value and label must come from the same lane. "
        "C11.PURE: no store, in-place update, out= or mutating call reaches an operand or an alias/view of its arrays. "
        "C11.GUARD: every read of another operand's numbers is dominated by a unit-equality (or is_a_ratio) assertion. "
        "C11.PRED: both arms of each of the 16 comparison predicates are abstracted to propositional formulas over the "
        "comparison atoms (.all()/.any() over one month = identity) and the two inclusion flags and compared by truth "
        "table. Not decided: relabelling on integer indexing (__getitem__ key type is a run-time value)."
    )
    rep.assumptions = ["include_* == not exclude_* (established by set_nutrition_requirements, checked in C14.RESET)",
                       "numpy elementwise semantics; a one-month series compares like its single element"]
