"""Shared infrastructure: repository index (E1), report/evidence writer, known findings."""
from __future__ import annotations

import ast
import hashlib
import json
import os
import re
import sys
import time

REPO = os.environ.get("ALLFEDSA_REPO", "/repo")
VERIF = os.path.dirname(os.path.dirname(os.path.abspath(__file__)))
EVIDENCE_DIR = os.environ.get("ALLFEDSA_EVIDENCE_DIR") or os.path.join(VERIF, "evidence")
KNOWN_FINDINGS = os.path.join(VERIF, "known_findings.json")


class AnalysisError(Exception):
    """an anchor vanished / fragment exceeded / instance count too low: exit 2, never a verdict"""


# --------------------------------------------------------------------------------------
# E1 index


def unrolled_assigns(tree, global_literals=None):
    """every Assign of `tree`, plus - for `for name in <literal sequence of strings>: ... X[name] = getattr(obj, name) ...` (the sequence
    written in place, bound once in the same function, or a module-level table) - one copy of each Assign of the loop body per listed
    string, with the loop variable replaced by the string and `getattr(obj, 'K')` read as `obj.K`"""
    import copy
    out = []

    def literal_strings(it, scope):
        if isinstance(it, (ast.Tuple, ast.List)) and it.elts and all(isinstance(e, ast.Constant) and isinstance(e.value, str) for e in it.elts):
            return [e.value for e in it.elts]
        if isinstance(it, ast.Name):
            if global_literals is not None and it.id in global_literals:
                return literal_strings(global_literals[it.id], None)
            if scope is not None:
                defs = [s_ for s_ in ast.walk(scope) if isinstance(s_, ast.Assign) and any(isinstance(t, ast.Name) and t.id == it.id for t in s_.targets)]
                if len(defs) == 1:
                    return literal_strings(defs[0].value, None)
        return None

    class Sub(ast.NodeTransformer):
        def __init__(self, var, value):
            self.var, self.value = var, value

        def visit_Name(self, n):
            if n.id == self.var and isinstance(n.ctx, ast.Load):
                return ast.copy_location(ast.Constant(value=self.value), n)
            return n

        def visit_Call(self, n):
            self.generic_visit(n)
            if isinstance(n.func, ast.Name) and n.func.id == "getattr" and len(n.args) == 2 and isinstance(n.args[1], ast.Constant) \
                    and isinstance(n.args[1].value, str) and n.args[1].value.isidentifier():
                return ast.copy_location(ast.Attribute(value=n.args[0], attr=n.args[1].value, ctx=ast.Load()), n)
            return n

    def scope_of(n):
        while n is not None and not isinstance(n, (ast.FunctionDef, ast.Module)):
            n = getattr(n, "_parent", None)
        return n

    for n in ast.walk(tree):
        if isinstance(n, ast.Assign):
            out.append(n)
        if isinstance(n, ast.For) and isinstance(n.target, ast.Name):
            vals = literal_strings(n.iter, scope_of(n))
            if vals:
                for st in n.body:
                    if isinstance(st, ast.Assign):
                        for v in vals:
                            c = Sub(n.target.id, v).visit(copy.deepcopy(_strip_parents(st)))
                            ast.copy_location(c, st)
                            ast.fix_missing_locations(c)
                            out.append(c)
    return out


class RuleAlias:
    """a report through which a rule group written for one property files its obligations under another property's rule ids (the clause is
    part of both properties' arguments): rule ids are rewritten by `rename` (None: the obligation stays with its own property only), everything else goes to the underlying report"""

    def __init__(self, rep, rename):
        self._rep, self._rename = rep, rename

    def ok(self, rule, *a, **k):
        r = self._rename(rule)
        return None if r is None else self._rep.ok(r, *a, **k)

    def violation(self, rule, *a, **k):
        r = self._rename(rule)
        return None if r is None else self._rep.violation(r, *a, **k)

    def check(self, cond, rule, *a, **k):
        r = self._rename(rule)
        return None if r is None else self._rep.check(cond, r, *a, **k)

    def info(self, rule, *a, **k):
        r = self._rename(rule)
        return None if r is None else self._rep.info(r, *a, **k)

    def require_min(self, rule, minimum):
        r = self._rename(rule)
        return None if r is None else self._rep.require_min(r, minimum)

    def __getattr__(self, name):
        return getattr(self._rep, name)


def own_params(fn):
    """parameter names without the bound first one of an instance / class method (a staticmethod or plain function has none)"""
    ps = [a.arg for a in fn.args.args]
    static = any(isinstance(d, ast.Name) and d.id == "staticmethod" for d in fn.decorator_list)
    return ps[1:] if ps and ps[0] in ("self", "cls") and not static else ps


def bind_named(fn, spec, skip_first=True, optional=()):
    """arguments for a call of `fn` from values the caller knows by the parameter names of the reference tree: [(name, value), ...].
    When the function still has parameters of those names they are bound by name (their order is the function's own business);
    otherwise (parameters renamed) by position.  -> (args, kwargs)"""
    params = [a.arg for a in fn.args.args][1 if skip_first else 0:]
    spec = [(n, v) for n, v in spec if n not in optional or n in params]     # a parameter the function no longer takes is not passed
    names = [n for n, _ in spec]
    if set(names) <= set(params):
        n_default = len(fn.args.defaults)
        for i, p_ in enumerate(params):
            if p_ not in names and i < len(params) - n_default:
                raise AnalysisError(f"{fn.name}: new required parameter {p_!r} (known: {names})")
        return [], dict(spec)
    return [v for _, v in spec], {}


def _literal_like(value):
    """a literal, possibly spelled with the pure builtins list/tuple/range over literals (`list(range(1, 11))`)"""
    for n in ast.walk(value):
        if isinstance(n, ast.Attribute):
            return False
        if isinstance(n, ast.Name) and n.id not in ("list", "tuple", "range"):
            return False
        if isinstance(n, ast.Call) and not (isinstance(n.func, ast.Name) and n.func.id in ("list", "tuple", "range") and not n.keywords):
            return False
    return True


class Index:
    def __init__(self, root=None):
        self.root = root or REPO
        self._mods = {}
        self._src = {}
        self._classes = None
        self._uses = None
        self._anchors = None
        self._flat = {}
        self.canon_counts = {}
        self.consulted = []

    def make_resolver(self, rels=None):
        """name -> FunctionDef for module-level functions and `Class.function` (functions without self/cls) of the given files
        (default: all of src/), unique names only"""
        table = {}
        dup = set()
        for rel in (rels or self.py_files("src")):
            try:
                mod = self.module(rel)
            except Exception:
                continue
            for st in mod.body:
                if isinstance(st, ast.FunctionDef):
                    (dup if st.name in table else table).__class__  # no-op, keeps flake quiet
                    if st.name in table:
                        dup.add(st.name)
                    table[st.name] = st
                if isinstance(st, ast.ClassDef):
                    for m in st.body:
                        if isinstance(m, ast.FunctionDef) and not (m.args.args and m.args.args[0].arg in ("self", "cls")):
                            key = f"{st.name}.{m.name}"
                            if key in table:
                                dup.add(key)
                            table[key] = m
        for d in dup:
            table.pop(d, None)
        return lambda name: table.get(name)

    def make_global_literals(self, rels=None):
        """module-level `NAME = <literal>` (numbers, strings, tuples/lists/dicts of them) of the given files, unique names only"""
        table, dup = {}, set()
        for rel in (rels or self.py_files("src")):
            try:
                mod = self.module(rel)
            except Exception:
                continue
            for st in mod.body:
                if isinstance(st, ast.Assign) and len(st.targets) == 1 and isinstance(st.targets[0], ast.Name) and _literal_like(st.value):
                    nme = st.targets[0].id
                    if nme in table:
                        dup.add(nme)
                    table[nme] = st.value
                if isinstance(st, ast.ClassDef):
                    # class-level literal tables, addressed as `Class.NAME`
                    for cs in st.body:
                        if isinstance(cs, ast.Assign) and len(cs.targets) == 1 and isinstance(cs.targets[0], ast.Name) and _literal_like(cs.value):
                            nme = f"{st.name}.{cs.targets[0].id}"
                            if nme in table:
                                dup.add(nme)
                            table[nme] = cs.value
        for d in dup:
            table.pop(d, None)
        return table

    def path(self, rel):
        return os.path.join(self.root, rel)

    def exists(self, rel):
        return os.path.exists(self.path(rel))

    def source(self, rel):
        if rel not in self._src:
            p = self.path(rel)
            if not os.path.exists(p):
                raise AnalysisError(f"anchor file missing: {rel}")
            with open(p, encoding="utf-8") as f:
                self._src[rel] = f.read()
            self.consulted.append(rel)
        return self._src[rel]

    def module(self, rel):
        if rel not in self._mods:
            try:
                tree = ast.parse(self.source(rel), filename=rel)
            except SyntaxError as e:
                raise AnalysisError(f"cannot parse {rel}: {e}")
            if rel.endswith(".py") and os.environ.get("ALLFEDSA_NO_CANON") != "1":
                from .canon import canonicalise, namedtuples_as_tuples
                from .canon import flatten_tuple_params
                if rel.startswith("src/"):
                    from .canon import read_through_stubs
                    n_st = read_through_stubs(tree, self._stubs())
                    if n_st:
                        self.canon_counts["delegating stubs read through"] = self.canon_counts.get("delegating stubs read through", 0) + n_st
                if rel.startswith("src/"):
                    from .canon import unpack_nt_params
                    n_ntp = unpack_nt_params(tree, self._namedtuples()[0], self._nt_params())
                    if n_ntp:
                        self.canon_counts["named-tuple parameters read as parallel parameters"] = \
                            self.canon_counts.get("named-tuple parameters read as parallel parameters", 0) + n_ntp
                n_tp = flatten_tuple_params(tree, self._tuple_params()) if rel.startswith("src/") else 0
                if n_tp:
                    self.canon_counts["tuple parameters flattened"] = self.canon_counts.get("tuple parameters flattened", 0) + n_tp
                nts_, rets_ = self._namedtuples()
                n_nt = namedtuples_as_tuples(tree, nts_, rets_)
                if n_nt:
                    self.canon_counts["named tuples read as tuples"] = self.canon_counts.get("named tuples read as tuples", 0) + n_nt
                counts = canonicalise(tree, self._class_table())
                for k, v in counts.items():
                    self.canon_counts[k] = self.canon_counts.get(k, 0) + v
                if rel.startswith("src/"):
                    n_ren = self._restore_reference_names(tree, rel)
                    if n_ren:
                        self.canon_counts["renamed parameters read under their reference names"] = \
                            self.canon_counts.get("renamed parameters read under their reference names", 0) + n_ren
                    n_merged = self._merge_single_caller_helpers(tree)
                    if n_merged:
                        self.canon_counts["single-caller helpers merged"] = self.canon_counts.get("single-caller helpers merged", 0) + n_merged
            for node in ast.walk(tree):
                for ch in ast.iter_child_nodes(node):
                    ch._parent = node
            self._mods[rel] = tree
        return self._mods[rel]

    # -- a function whose parameters were merely renamed (same number as on the reference tree, other names) is read under the reference
    #    names again - signature, body and the keyword arguments of the calls that certainly reach it.  The rules name parameters the way
    #    the reference tree does; what a maintainer calls them is no property of the code.  (Same names in another order: nothing to do;
    #    another number of parameters, a moved or new function: left alone.)
    def _param_renames(self):
        if getattr(self, "_renames", None) is not None:
            return self._renames
        import json
        path = os.path.join(os.path.dirname(os.path.abspath(__file__)), "ref_signatures.json")
        try:
            with open(path, encoding="utf-8") as f:
                ref = json.load(f)
        except (OSError, ValueError):
            ref = {}
        by_fn, by_callee = {}, {}
        self._method_renames = {}
        if ref and os.environ.get("ALLFEDSA_NO_REFNAMES") != "1":
            # methods (and module-level functions) renamed against the reference tree: in one class (file) exactly one reference name is gone
            # and exactly one new name with the same parameter list has appeared, and the new name is defined nowhere else
            all_defs = {}
            parsed = {}
            for rel in self.py_files("src"):
                try:
                    with open(self.path(rel), encoding="utf-8") as f:
                        parsed[rel] = ast.parse(f.read())
                except (SyntaxError, OSError):
                    continue
                # signatures are compared as the rules will read them: grouped parameters (a tuple or named tuple) flattened first
                try:
                    from .canon import unpack_nt_params, flatten_tuple_params
                    unpack_nt_params(parsed[rel], self._namedtuples()[0], self._nt_params())
                    flatten_tuple_params(parsed[rel], self._tuple_params())
                except Exception:
                    pass
                for n in ast.walk(parsed[rel]):
                    if isinstance(n, ast.FunctionDef):
                        all_defs[n.name] = all_defs.get(n.name, 0) + 1
            for rel, mod in parsed.items():
                if rel not in ref:
                    continue
                groups = {None: [n for n in mod.body if isinstance(n, ast.FunctionDef)]}
                for c in [n for n in mod.body if isinstance(n, ast.ClassDef)]:
                    groups[c.name] = [m for m in c.body if isinstance(m, ast.FunctionDef)]
                for cname, fns in groups.items():
                    pre = (cname + ".") if cname else ""
                    ref_here = {q[len(pre):]: v for q, v in ref[rel].items() if (q.startswith(pre) and "." not in q[len(pre):]) and (cname or "." not in q)}
                    cur_here = {f.name: [a.arg for a in f.args.args] for f in fns}
                    gone = [n for n in ref_here if n not in cur_here]
                    came = [n for n in cur_here if n not in ref_here]
                    import difflib
                    sim = lambda a_, b_: difflib.SequenceMatcher(None, a_, b_).ratio()
                    for new_name in came:
                        if all_defs.get(new_name, 0) != 1 or new_name.startswith("__"):
                            continue
                        cands = [g for g in gone if ref_here[g] == cur_here[new_name]]
                        others = [c_ for c_ in came if c_ != new_name and cur_here[c_] == cur_here[new_name]]
                        exact = len(cands) == 1 and not others
                        if not exact:
                            # parameters may have been renamed / reordered in the same commit: the number of parameters and the names decide
                            cands = [g for g in gone if len(ref_here[g]) == len(cur_here[new_name])]
                            others = [c_ for c_ in came if c_ != new_name and len(cur_here[c_]) == len(cur_here[new_name])]
                        if not cands:
                            continue
                        if exact:
                            best = cands[0]              # the only name gone with this parameter list
                        else:
                            # several methods of the same shape were renamed: the names decide, when they do so clearly and mutually
                            best = max(cands, key=lambda g: sim(new_name, g))
                            if sim(new_name, best) < 0.6 or any(sim(c_, best) >= sim(new_name, best) for c_ in others):
                                continue
                        if all_defs.get(best, 0) == 0 and best not in self._method_renames.values():
                            self._method_renames[new_name] = best
        if ref and os.environ.get("ALLFEDSA_NO_REFNAMES") != "1":
            from .canon import unique_methods
            classes = self._class_table()
            uniq = unique_methods(classes)
            for rel in self.py_files("src"):
                if rel not in ref:
                    continue
                try:
                    with open(self.path(rel), encoding="utf-8") as f:
                        mod = ast.parse(f.read())
                except (SyntaxError, OSError):
                    continue
                try:
                    from .canon import unpack_nt_params, flatten_tuple_params
                    unpack_nt_params(mod, self._namedtuples()[0], self._nt_params())
                    flatten_tuple_params(mod, self._tuple_params())
                except Exception:
                    pass
                defs = []
                for n in mod.body:
                    if isinstance(n, ast.FunctionDef):
                        defs.append((n.name, None, n))
                    if isinstance(n, ast.ClassDef):
                        defs.extend((f"{n.name}.{m.name}", n.name, m) for m in n.body if isinstance(m, ast.FunctionDef))
                for qual, cname, fn in defs:
                    want = ref[rel].get(qual)
                    if want is None and fn.name in self._method_renames:
                        want = ref[rel].get((cname + "." if cname else "") + self._method_renames[fn.name])
                    a = fn.args
                    cur = [x.arg for x in a.args]
                    if want is None or len(want) != len(cur) or sorted(want) == sorted(cur) or a.vararg or a.kwarg or a.kwonlyargs or a.posonlyargs:
                        continue
                    cs, ws = [c for c in cur if c not in want], [w for w in want if w not in cur]
                    if len(cs) != len(ws):
                        continue
                    # which reference name does each new name stand for?  By position, unless the words of the new names say otherwise (renamed
                    # and reordered at once): then by the words, and when the words do not decide it, the function is left as it is written
                    import difflib

                    def score(c, w):
                        tc, tw = set(c.lower().split("_")) - {""}, set(w.lower().split("_")) - {""}
                        return len(tc & tw) / max(1, len(tc | tw)) + 0.01 * difflib.SequenceMatcher(None, c, w).ratio()
                    same_slot = {c: w for c, w in zip(cur, want) if c != w and c in cs and w in ws}
                    by_position = len(same_slot) == len(cs) and all(score(c, same_slot[c]) + 1e-9 >= max(score(c, w) for w in ws) for c in cs)
                    if by_position:
                        ren = same_slot
                    else:
                        pairs = sorted(((score(c, w), c, w) for c in cs for w in ws), reverse=True)
                        ren, used_w = {}, set()
                        for sc_, c, w in pairs:
                            if c not in ren and w not in used_w and sc_ >= 0.2:
                                ren[c] = w
                                used_w.add(w)
                        if len(ren) != len(cs):
                            continue
                    if set(ren.values()) & set(cur):
                        continue          # a reference name is in use for another parameter: renamed and reordered at once, not decidable here
                    used = {n.id for n in ast.walk(fn) if isinstance(n, ast.Name)}
                    if set(ren.values()) & used:
                        continue          # the reference name now names something else in the body
                    nested = [n for n in ast.walk(fn) if n is not fn and isinstance(n, (ast.FunctionDef, ast.Lambda))]
                    rebound = {x.arg for n in nested for x in n.args.args + n.args.kwonlyargs} | {
                        t.id for n in ast.walk(fn) if isinstance(n, ast.comprehension) for t in ast.walk(n.target) if isinstance(t, ast.Name)}
                    if set(ren) & rebound:
                        continue
                    rname = self._method_renames.get(fn.name, fn.name)       # keys use the reference name (methods are renamed back first)
                    by_fn[(rel, (cname + "." if cname else "") + rname)] = ren
                    if cname is None:
                        by_callee[("func", rel, rname)] = ren
                    elif fn.name == "__init__":
                        if cname in classes:
                            by_callee[("ctor", cname)] = ren
                    elif fn.name in uniq:
                        by_callee[("method", rname)] = ren
        self._renames = (by_fn, by_callee)
        return self._renames

    def _restore_reference_names(self, tree, rel):
        by_fn, by_callee = self._param_renames()
        n_done = 0
        mren = getattr(self, "_method_renames", {})
        if mren:
            for n in ast.walk(tree):
                if isinstance(n, ast.FunctionDef) and n.name in mren:
                    n.name = mren[n.name]
                    n_done += 1
                elif isinstance(n, ast.Attribute) and n.attr in mren:
                    n.attr = mren[n.attr]
                elif isinstance(n, ast.Name) and n.id in mren and isinstance(n.ctx, ast.Load):
                    n.id = mren[n.id]
        if not by_fn:
            return n_done
        defs = []
        for n in tree.body:
            if isinstance(n, ast.FunctionDef):
                defs.append((n.name, n))
            if isinstance(n, ast.ClassDef):
                defs.extend((f"{n.name}.{m.name}", m) for m in n.body if isinstance(m, ast.FunctionDef))
        for qual, fn in defs:
            ren = by_fn.get((rel, qual))
            if not ren:
                continue
            for x in fn.args.args:
                x.arg = ren.get(x.arg, x.arg)
            for n in ast.walk(fn):
                if isinstance(n, ast.Name) and n.id in ren:
                    n.id = ren[n.id]
            n_done += len(ren)
        for c in ast.walk(tree):
            if not isinstance(c, ast.Call) or not c.keywords:
                continue
            ren = None
            if isinstance(c.func, ast.Attribute):
                ren = by_callee.get(("method", c.func.attr))
            elif isinstance(c.func, ast.Name):
                ren = by_callee.get(("ctor", c.func.id)) or by_callee.get(("func", rel, c.func.id))
            if ren:
                for k in c.keywords:
                    if k.arg in ren:
                        k.arg = ren[k.arg]
        return n_done

    # -- a method that exactly one statement of one other method of its class calls, and that no rule addresses by name, is a piece of
    #    that method (what "extract method" produces): it is merged back into its caller and removed from the class
    def _merge_single_caller_helpers(self, tree):
        uses, anchors = self._method_uses(), self._anchor_names()
        merged = 0
        for cls in [n for n in ast.walk(tree) if isinstance(n, ast.ClassDef)]:
            for _ in range(6):
                methods = {m.name: m for m in cls.body if isinstance(m, ast.FunctionDef)}
                cands = {}
                for name, m in methods.items():
                    if name in anchors or name.startswith("__") or uses.get(name, 0) != 1:
                        continue
                    if m.decorator_list or not m.args.args or m.args.args[0].arg != "self":
                        continue       # instance methods reached through self only (class-qualified static helpers are left to the tracer)
                    cands[name] = m
                # innermost first: a helper that itself still calls another helper to be merged waits for the next pass
                def calls_cand(m_, names):
                    return any(isinstance(c, ast.Call) and isinstance(c.func, ast.Attribute) and isinstance(c.func.value, ast.Name)
                               and c.func.value.id in ("self", cls.name) and c.func.attr in names and c.func.attr != m_.name for c in ast.walk(m_))
                leaf = {k: v for k, v in cands.items() if not calls_cand(v, set(cands))}
                cands = leaf or {}
                if not cands:
                    break
                done = set()
                for name, m in list(methods.items()):
                    if name in cands and False:
                        continue
                    called = {c.func.attr for c in ast.walk(m) if isinstance(c, ast.Call) and isinstance(c.func, ast.Attribute)
                              and isinstance(c.func.value, ast.Name) and c.func.value.id == "self" and c.func.attr in cands and c.func.attr != name}
                    if not called:
                        continue
                    keep = [k for k in methods if k not in called]
                    new = flatten_function(m, {k: methods[k] for k in called}, keep=keep, depth=1, cls_name=cls.name, canonical=False)
                    still = {c.func.attr for c in ast.walk(new) if isinstance(c, ast.Call) and isinstance(c.func, ast.Attribute) and c.func.attr in called}
                    inlined = called - still
                    if inlined:
                        cls.body[cls.body.index(m)] = new
                        methods[name] = new
                        done |= inlined
                if not done:
                    break
                cls.body = [b for b in cls.body if not (isinstance(b, ast.FunctionDef) and b.name in done)]
                merged += len(done)
        return merged

    def _method_uses(self):
        """method name -> number of places anywhere in src/ where an attribute of that name is read (calls and method values alike)"""
        if self._uses is None:
            cnt = {}
            for r in self.py_files("src"):
                try:
                    with open(self.path(r), encoding="utf-8") as f:
                        raw = ast.parse(f.read())
                except (SyntaxError, OSError):
                    continue
                for n in ast.walk(raw):
                    if isinstance(n, ast.Attribute) and isinstance(n.ctx, ast.Load):
                        cnt[n.attr] = cnt.get(n.attr, 0) + 1
                    elif isinstance(n, ast.Constant) and isinstance(n.value, str) and n.value.isidentifier():
                        cnt[n.value] = cnt.get(n.value, 0) + 1      # getattr(obj, "name") and the like
            self._uses = cnt
        return self._uses

    def _anchor_names(self):
        """identifiers that occur as string literals in the rule modules: the routines the rules address by name are never merged away"""
        if self._anchors is None:
            names = set()
            here = os.path.dirname(os.path.abspath(__file__))
            for f in sorted(os.listdir(here)):
                if f.endswith(".py") and f not in ("probes.py", "mutants.py"):
                    with open(os.path.join(here, f), encoding="utf-8") as fh:
                        txt = fh.read()
                    for tok in re.findall(r"[A-Za-z_][A-Za-z0-9_]*", " ".join(re.findall(r"\"([^\"\n]*)\"|'([^'\n]*)'", txt) and
                                                                                  [a or b for a, b in re.findall(r"\"([^\"\n]*)\"|'([^'\n]*)'", txt)])):
                        names.add(tok)
            self._anchors = names
        return self._anchors

    def _raw_src(self):
        raw = []
        for r in self.py_files("src"):
            try:
                with open(self.path(r), encoding="utf-8") as f:
                    raw.append(ast.parse(f.read()))
            except (SyntaxError, OSError):
                continue
        return raw

    def _stubs(self):
        if getattr(self, "_stub_tab", None) is None:
            from .canon import stub_table
            self._stub_tab = stub_table(self._raw_src())
        return self._stub_tab

    def _nt_params(self):
        if getattr(self, "_ntp", None) is None:
            from .canon import nt_param_table
            self._ntp = nt_param_table(self._raw_src(), self._namedtuples()[0])
        return self._ntp

    def _tuple_params(self):
        if getattr(self, "_tp", None) is None:
            from .canon import tuple_param_table, unpack_nt_params
            raw = self._raw_src()
            if self._nt_params():
                for t_ in raw:
                    unpack_nt_params(t_, self._namedtuples()[0], self._nt_params())
            self._tp = tuple_param_table(raw)
        return self._tp

    def _namedtuples(self):
        if getattr(self, "_nt", None) is None:
            from .canon import namedtuple_tables
            raw = []
            for r in self.py_files("src"):
                try:
                    with open(self.path(r), encoding="utf-8") as f:
                        raw.append(ast.parse(f.read()))
                except (SyntaxError, OSError):
                    continue
            self._nt = namedtuple_tables(raw)
        return self._nt

    def _class_table(self):
        """classes of src/ with a repository-wide unique name (raw parse; used to decide which callee a call certainly reaches)"""
        if self._classes is None:
            from .canon import class_table
            raw = []
            for r in self.py_files("src"):
                try:
                    with open(self.path(r), encoding="utf-8") as f:
                        raw.append(ast.parse(f.read()))
                except (SyntaxError, OSError):
                    continue
            self._classes = class_table(raw)
        return self._classes

    def classes(self, rel):
        return {n.name: n for n in self.module(rel).body if isinstance(n, ast.ClassDef)}

    def cls(self, rel, name):
        c = self.classes(rel).get(name)
        if c is None:
            raise AnalysisError(f"anchor class missing: {rel}::{name}")
        return c

    def func(self, rel, qual, required=True):
        """qual = 'Class.method' or 'function'"""
        mod = self.module(rel)
        parts = qual.split(".")
        body = mod.body
        node = None
        for i, p in enumerate(parts):
            node = None
            for st in body:
                if isinstance(st, (ast.ClassDef, ast.FunctionDef)) and st.name == p:
                    node = st
                    break
            if node is None:
                if required:
                    raise AnalysisError(f"anchor missing: {rel}::{qual}")
                return None
            body = node.body
        if not isinstance(node, ast.FunctionDef):
            if required:
                raise AnalysisError(f"anchor is not a function: {rel}::{qual}")
            return None
        return node

    def flat_func(self, rel, qual, keep=(), depth=2):
        """`func(rel, 'Class.method')` with the helper methods of the class it calls as whole statements inlined (see flatten_function)"""
        fn = self.func(rel, qual)
        cname = qual.split(".")[0]
        key = (rel, qual, tuple(sorted(keep)), depth)
        if key not in self._flat:
            self._flat[key] = flatten_function(fn, self.methods(rel, cname), keep, depth, cls_name=cname)
        return self._flat[key]

    def methods(self, rel, clsname):
        return {n.name: n for n in self.cls(rel, clsname).body if isinstance(n, ast.FunctionDef)}

    def py_files(self, subdir="src"):
        out = []
        for d, _, fs in os.walk(self.path(subdir)):
            for f in sorted(fs):
                if f.endswith(".py"):
                    out.append(os.path.relpath(os.path.join(d, f), self.root))
        return sorted(out)

    def digest(self):
        h = hashlib.sha256()
        for rel in sorted(set(self.consulted)):
            h.update(rel.encode())
            h.update(self._src[rel].encode())
        return h.hexdigest()[:16]


def loc(rel, node):
    return f"{rel}:{getattr(node, '_src_lineno', getattr(node, 'lineno', '?'))}"


def renumber_in_order(fn):
    """statements of a function into which helper bodies were inlined carry the line numbers of the places they were written at; rules
    that order statements by line number need the order they now have.  Every statement gets a fresh line number in text order (its
    expressions the same one); the line it was written at is kept as `_src_lineno`, which `loc` reports."""
    counter = [getattr(fn, "lineno", 1)]

    def stamp(node, line):
        for n in ast.walk(node):
            if hasattr(n, "lineno"):
                if not hasattr(n, "_src_lineno"):
                    n._src_lineno = n.lineno
                n.lineno = line
                if hasattr(n, "end_lineno"):
                    n.end_lineno = line

    def block(stmts):
        for st in stmts:
            counter[0] += 1
            line = counter[0]
            if not hasattr(st, "_src_lineno"):
                st._src_lineno = getattr(st, "lineno", line)
            # the statement's own expressions (not its nested blocks)
            for f, v in ast.iter_fields(st):
                if f in ("body", "orelse", "finalbody", "handlers"):
                    continue
                for x in (v if isinstance(v, list) else [v]):
                    if isinstance(x, ast.AST):
                        stamp(x, line)
            st.lineno = line
            if hasattr(st, "end_lineno"):
                st.end_lineno = line
            for f in ("body", "orelse", "finalbody"):
                sub = getattr(st, f, None)
                if isinstance(sub, list) and sub and isinstance(sub[0], ast.stmt):
                    block(sub)
            for h in getattr(st, "handlers", []) or []:
                counter[0] += 1
                h.lineno = counter[0]
                block(h.body)
            if hasattr(st, "end_lineno"):
                st.end_lineno = counter[0]

    block(fn.body)


def norm_src(node):
    """normalised statement text (insensitive to formatting) used in construct keys"""
    return re.sub(r"\s+", " ", ast.unparse(node)).strip()


def ctor_values(e, cls=None):
    """argument texts of a construction `Class(...)` in parameter order, whether spelled positionally or (canonical form) by keyword;
    `e` is a node or source text.  None if `e` is not a call of `cls`."""
    if isinstance(e, str):
        try:
            e = ast.parse(e, mode="eval").body
        except SyntaxError:
            return None
    if not isinstance(e, ast.Call) or (cls is not None and dotted(e.func) != cls):
        return None
    return [norm_src(a) for a in e.args] + [norm_src(k.value) for k in e.keywords]


def plain_text(e):
    """source text in which constructions `Class(p=a, q=b)` (the canonical, keyword form) read `Class(a, b)` again; for rules that
    compare a whole expression with an expected text.  `e` is a node or source text."""
    if isinstance(e, str):
        try:
            e = ast.parse(e, mode="eval").body
        except SyntaxError:
            return e

    class T(ast.NodeTransformer):
        def visit_Call(self, n):
            self.generic_visit(n)
            if isinstance(n.func, ast.Name) and n.func.id[:1].isupper() and n.keywords and all(k.arg is not None for k in n.keywords):
                n.args = list(n.args) + [k.value for k in n.keywords]
                n.keywords = []
            return n

    return norm_src(T().visit(_strip_parents(e)))


def bounds_in(test):
    """constant bounds a boolean expression states on sub-expressions: [(kind, expression node, value, strict)] with kind 'lower'
    (value < e / value <= e) or 'upper' (e < value / e <= value); conjunctions, chained comparisons and np.all(...)/(...).all()
    wrappers are looked through.  Works on either orientation of the comparison."""
    out = []

    def lit(e):
        try:
            v = ast.literal_eval(e)
            return float(v) if isinstance(v, (int, float)) and not isinstance(v, bool) else None
        except Exception:
            return None

    def visit(t):
        if isinstance(t, ast.BoolOp) and isinstance(t.op, ast.And):
            for v in t.values:
                visit(v)
        elif isinstance(t, ast.Call) and dotted(t.func) in ("np.all", "all") and len(t.args) == 1:
            visit(t.args[0])
        elif isinstance(t, ast.Call) and isinstance(t.func, ast.Attribute) and t.func.attr == "all" and not t.args:
            visit(t.func.value)
        elif isinstance(t, ast.Compare):
            terms = [t.left] + list(t.comparators)
            for l, o, r in zip(terms, t.ops, terms[1:]):
                if isinstance(o, (ast.Lt, ast.LtE)):
                    lo, hi, strict = l, r, isinstance(o, ast.Lt)
                elif isinstance(o, (ast.Gt, ast.GtE)):
                    lo, hi, strict = r, l, isinstance(o, ast.Gt)
                else:
                    continue
                if lit(lo) is not None and lit(hi) is None:
                    out.append(("lower", hi, lit(lo), strict))
                elif lit(hi) is not None and lit(lo) is None:
                    out.append(("upper", lo, lit(hi), strict))

    visit(test)
    return out


def walk_no_nested(node):
    """walk a function body without descending into nested function/class definitions"""
    stack = list(ast.iter_child_nodes(node))
    while stack:
        n = stack.pop()
        yield n
        if isinstance(n, (ast.FunctionDef, ast.AsyncFunctionDef, ast.ClassDef, ast.Lambda)):
            continue
        stack.extend(ast.iter_child_nodes(n))


def dotted(n):
    parts = []
    while isinstance(n, ast.Attribute):
        parts.append(n.attr)
        n = n.value
    if isinstance(n, ast.Name):
        parts.append(n.id)
        return ".".join(reversed(parts))
    return None


def str_const(n):
    if isinstance(n, ast.Constant) and isinstance(n.value, str):
        return n.value
    return None


# --------------------------------------------------------------------------------------
# report


class Report:
    def __init__(self, pid, tier="quick", level="other"):
        self.pid = pid
        self.tier = tier
        self.level = level
        self.t0 = time.time()
        self.obligations = []  # dict(rule, construct, status, detail, loc)
        self.infos = []
        self.analysed = {}
        self.assumptions = []
        self.explanation = ""
        self.trusted_base = []
        self.samples = []
        self.rule_counts = {}
        self.extra = {}
        self.min_failures = []

    # an obligation is one rule instance on one construct
    def ok(self, rule, construct, detail=None, loc=None, nontrivial=True):
        self.obligations.append(
            dict(rule=rule, construct=construct, status="ok", detail=detail, loc=loc, nontrivial=nontrivial)
        )
        self.rule_counts[rule] = self.rule_counts.get(rule, 0) + 1

    def violation(self, rule, construct, what, loc=None, detail=None):
        for o in self.obligations:
            if o["status"] == "violation" and o["rule"] == rule and o["construct"] == construct:
                o.setdefault("also", []).append(detail)
                self.rule_counts[rule] = self.rule_counts.get(rule, 0) + 1
                return
        self.obligations.append(
            dict(rule=rule, construct=construct, status="violation", what=what, detail=detail, loc=loc, nontrivial=True)
        )
        self.rule_counts[rule] = self.rule_counts.get(rule, 0) + 1

    def check(self, cond, rule, construct, what, loc=None, detail=None):
        if cond:
            self.ok(rule, construct, detail=detail, loc=loc)
        else:
            self.violation(rule, construct, what, loc=loc, detail=detail)
        return cond

    def info(self, rule, text):
        self.infos.append(f"{rule}: {text}")

    def require_min(self, rule, minimum):
        n = self.rule_counts.get(rule, 0)
        if n < minimum:
            # deferred: a violation found elsewhere is the more specific verdict; otherwise exit 2 at finish()
            self.min_failures.append(
                f"rule {rule} matched {n} instance(s), fewer than the {minimum} confirmed by hand - "
                "the rule no longer sees the code it was written for"
            )

    def guard(self, fn, *args, **kwargs):
        """run one rule group; an AnalysisError inside it is deferred so that violations already found (usually the
        cause) are reported as the verdict; without violations the run still ends with exit 2"""
        try:
            return fn(*args, **kwargs)
        except AnalysisError as e:
            self.min_failures.append(f"{getattr(fn, '__name__', 'rule')}: {e}")
            return None

    def note_analysed(self, key, value):
        self.analysed[key] = value

    # ----------------------------------------------------------------
    def finish(self):
        known = load_known()
        viols = [o for o in self.obligations if o["status"] == "violation"]
        listed, unlisted = [], []
        for v in viols:
            k = match_known(known, self.pid, v["rule"], v["construct"])
            (listed if k else unlisted).append((v, k))
        os.makedirs(os.path.join(EVIDENCE_DIR, "replays"), exist_ok=True)
        for fn in os.listdir(os.path.join(EVIDENCE_DIR, "replays")):
            if fn.startswith(self.pid + "_"):
                os.unlink(os.path.join(EVIDENCE_DIR, "replays", fn))
        lines = []
        for v, k in listed:
            lines.append(
                f"KNOWN-FINDING: property={self.pid} {v['rule']} {v['construct']}: {v['what']}"
            )
        replay_paths = []
        for v, _ in unlisted:
            h = hashlib.sha1((v["rule"] + "|" + v["construct"]).encode()).hexdigest()[:10]
            rp = os.path.join(EVIDENCE_DIR, "replays", f"{self.pid}_{v['rule'].replace('.', '_')}_{h}.json")
            with open(rp, "w") as f:
                json.dump(
                    dict(property=self.pid, rule=v["rule"], construct=v["construct"], what=v["what"],
                         loc=v.get("loc"), detail=v.get("detail")),
                    f, indent=1, default=str,
                )
            replay_paths.append(rp)
            print(f"  {v['rule']} @ {v.get('loc') or '?'} :: {v['construct']}\n      {v['what']}")
            if v.get("detail"):
                print(f"      detail: {v['detail']}")
            lines.append(f"VIOLATION property={self.pid} replay={rp}")
        n_ob = len(self.obligations)
        n_ok = sum(1 for o in self.obligations if o["status"] == "ok")
        distinct = len({(o["rule"], o["construct"]) for o in self.obligations if o.get("nontrivial")})
        samples = self.samples[:]
        if not samples:
            for o in self.obligations[:6]:
                samples.append({k: (str(v) if v is not None else None) for k, v in o.items() if k in ("rule", "construct", "status", "detail", "loc")})
        cov = dict(
            explanation=self.explanation,
            obligations=n_ob,
            discharged=n_ok,
            evaluations=n_ob,
            distinct_nontrivial=distinct,
            rule="one evaluation = one rule instance on one construct of /repo's current source; "
                 "distinct = distinct (rule, construct) pairs whose obligation is not vacuous",
            samples=samples[:12],
            rules={k: v for k, v in sorted(self.rule_counts.items())},
            analysed=self.analysed,
            known_findings_reported=[f"{v['rule']} {v['construct']}" for v, _ in listed],
            information=self.infos[:60],
            exhaustive=False,
        )
        if self.level == "proof":
            cov["checker_cmd"] = f"/venv/bin/python -m allfedsa.cli {self.pid} --tier {self.tier}"
            cov["trusted_base"] = self.trusted_base
        cov.update(self.extra)
        ev = dict(
            property_id=self.pid,
            tier=self.tier,
            seed=int(os.environ.get("VERIF_SEED", "0") or 0),
            level=self.level,
            coverage=cov,
            assumptions=self.assumptions,
            wall_s=round(time.time() - self.t0, 3),
            violations=len(unlisted),
        )
        os.makedirs(EVIDENCE_DIR, exist_ok=True)
        with open(os.path.join(EVIDENCE_DIR, f"{self.pid}.json"), "w") as f:
            json.dump(ev, f, indent=1, default=str)
        print(
            f"[{self.pid}] tier={self.tier} obligations={n_ob} discharged={n_ok} "
            f"known_findings={len(listed)} violations={len(unlisted)} wall={ev['wall_s']}s"
        )
        for r, c in sorted(self.rule_counts.items()):
            print(f"   {r}: {c} instance(s)")
        for ln in lines:
            print(ln)
        if unlisted:
            return 1
        if self.min_failures:
            for m in self.min_failures:
                print(f"ANALYSIS-ERROR property={self.pid}: {m}")
            return 2
        return 0


def load_known():
    if not os.path.exists(KNOWN_FINDINGS):
        return []
    with open(KNOWN_FINDINGS) as f:
        data = json.load(f)
    return data.get("findings", [])


def match_known(known, pid, rule, construct):
    for k in known:
        if k.get("status") != "known":
            continue  # "fixed" entries suppress nothing
        if k["property"] == pid and k["rule"] == rule and k["construct"] == construct:
            return k
    return None


# ------------------------------------------------------------------------------------------------------------------
# Copy propagation for name-independent matching: a wiring rule should talk about WHAT reaches a call, not about what the
# local variable in between happens to be called.

class Inliner:
    """substitutes single-assignment locals of one function by their defining expressions (tuple unpacking becomes `<call>[i]`),
    so that `x = f(a); g(x)` and `y = f(a); g(y)` and `g(f(a))` all read `g(f(a))`"""

    def __init__(self, fn, max_depth=10):
        self.fn = fn
        self.max_depth = max_depth
        self.defs = {}
        self.stores = []  # (subscript/attribute target, value expression) incl. elements of tuple unpacking as `<value>[i]`
        self.params = set()
        if isinstance(fn, (ast.FunctionDef, ast.AsyncFunctionDef)):
            a = fn.args
            self.params = {x.arg for x in a.args + a.kwonlyargs + a.posonlyargs}
            if a.vararg:
                self.params.add(a.vararg.arg)
            if a.kwarg:
                self.params.add(a.kwarg.arg)
        nodes = list(walk_no_nested(fn)) if isinstance(fn, (ast.FunctionDef, ast.AsyncFunctionDef)) else list(ast.walk(fn))
        for st in nodes:
            if isinstance(st, ast.Assign):
                for t in st.targets:
                    self._bind(t, st.value)
            elif isinstance(st, ast.AnnAssign) and st.value is not None:
                self._bind(st.target, st.value)
            elif isinstance(st, ast.AugAssign):
                self._kill(st.target)
            elif isinstance(st, (ast.For, ast.AsyncFor)):
                self._kill(st.target)
            elif isinstance(st, (ast.With, ast.AsyncWith)):
                for it in st.items:
                    if it.optional_vars is not None:
                        self._kill(it.optional_vars)
            elif isinstance(st, ast.comprehension):
                self._kill(st.target)
            elif isinstance(st, ast.NamedExpr):
                self._kill(st.target)

    def _bind(self, t, value):
        if isinstance(t, (ast.Subscript, ast.Attribute)):
            self.stores.append((t, value))
        if isinstance(t, ast.Name):
            self.defs.setdefault(t.id, []).append(value)
        elif isinstance(t, (ast.Tuple, ast.List)):
            for i, e in enumerate(t.elts):
                if isinstance(e, ast.Starred):
                    self._kill(e.value)
                else:
                    self._bind(e, ast.Subscript(value=value, slice=ast.Constant(value=i), ctx=ast.Load()))

    def _kill(self, t):
        for n in ast.walk(t):
            if isinstance(n, ast.Name):
                self.defs.setdefault(n.id, []).append(None)

    def at(self, node):
        """this inliner as seen from one program point: only the definitions of each local that reach `node` (structured reaching
        definitions over if/for/while/with/try; branches that end in return/raise/continue/break do not flow on).  A name pre-set to
        None and assigned in the branch that also contains `node` thus reads as that assignment."""
        import copy
        view = copy.copy(self)
        view.stores = list(self.stores)
        view.defs = _reaching(self.fn, node)
        view.params = set()      # a parameter reads as itself until it is reassigned (its reaching definitions say which)
        return view

    def stored_value(self, e):
        """for a load of `self.attr` / `d["k"]`: the one expression this function stores there (inlined), else `e` inlined"""
        if isinstance(e, (ast.Attribute, ast.Subscript)):
            t = norm_src(e)
            hits = [v for tgt, v in self.stores if norm_src(tgt) == t]
            if len(hits) == 1:
                return self.expr(hits[0])
        return self.expr(e)

    def single(self, name):
        d = self.defs.get(name)
        if name in self.params or not d or any(x is None for x in d):
            return None
        if len(d) > 1 and len({norm_src(x) for x in d}) != 1:
            return None  # assigned differently on different paths: not substituted (see `alternatives`)
        return d[0]

    def expr(self, e, depth=0, stack=()):
        import copy
        me = self

        class T(ast.NodeTransformer):
            def visit_Name(self, n):
                if isinstance(n.ctx, ast.Load) and n.id not in stack and depth < me.max_depth:
                    d = me.single(n.id)
                    if d is not None:
                        return me.expr(d, depth + 1, stack + (n.id,))
                return n

            def visit_Lambda(self, n):
                return n

            def visit_Subscript(self, n):
                n = self.generic_visit(n)
                return fold_index(n)

        return T().visit(_strip_parents(e))

    def src(self, e):
        return norm_src(self.expr(e))

    def alternatives(self, e, limit=32):
        """all texts `e` can stand for when locals assigned on several branches are followed through each of their definitions
        (loop targets / augmented names stay as they are); None if there are more than `limit`"""
        import itertools
        multi = []
        seen = set()

        def collect(node, depth=0):
            for n in ast.walk(node):
                if isinstance(n, ast.Name) and isinstance(n.ctx, ast.Load) and n.id not in self.params and n.id not in seen:
                    d = self.defs.get(n.id)
                    if d and all(x is not None for x in d):
                        seen.add(n.id)
                        if len(d) > 1:
                            multi.append(n.id)
                        if depth < self.max_depth:
                            for x in d:
                                collect(x, depth + 1)

        collect(e)
        if not multi:
            return [self.src(e)]
        choices = [self.defs[m] for m in multi]
        total = 1
        for c in choices:
            total *= len(c)
        if total > limit:
            return None
        out = []
        saved = {m: self.defs[m] for m in multi}
        try:
            for combo in itertools.product(*choices):
                for m, d in zip(multi, combo):
                    self.defs[m] = [d]
                t = self.src(e)
                if t not in out:
                    out.append(t)
        finally:
            self.defs.update(saved)
        return out


def _reaching(fn, node):
    inside = {}

    def contains(st):
        k = id(st)
        if k not in inside:
            inside[k] = any(x is node for x in ast.walk(st))
        return inside[k]

    def bind(env, t, value):
        if isinstance(t, ast.Name):
            env[t.id] = [value]
        elif isinstance(t, (ast.Tuple, ast.List)):
            for i, e in enumerate(t.elts):
                if isinstance(e, ast.Starred):
                    kill(env, e.value)
                else:
                    bind(env, e, ast.Subscript(value=value, slice=ast.Constant(value=i), ctx=ast.Load()) if value is not None else None)

    def kill(env, t):
        for n in ast.walk(t):
            if isinstance(n, ast.Name):
                env[n.id] = [None]

    def merge(envs):
        out = {}
        for e in envs:
            for k, v in e.items():
                cur = out.setdefault(k, [])
                for d in v:
                    if not any(d is x for x in cur):
                        cur.append(d)
        # a name missing on one side keeps what the other side has (undefined there: would be an error at run time)
        return out

    def terminates(stmts):
        return bool(stmts) and isinstance(stmts[-1], (ast.Return, ast.Raise, ast.Continue, ast.Break))

    def transfer(st, env):
        """env after st (st does not contain the node)"""
        if isinstance(st, ast.Assign):
            for t in st.targets:
                bind(env, t, st.value)
        elif isinstance(st, ast.AnnAssign) and st.value is not None:
            bind(env, st.target, st.value)
        elif isinstance(st, ast.AugAssign):
            kill(env, st.target)
        elif isinstance(st, ast.If):
            outs = []
            for blk in (st.body, st.orelse):
                e = {k: list(v) for k, v in env.items()}
                for s_ in blk:
                    e = transfer(s_, e)
                if not terminates(blk):
                    outs.append(e)
            return merge(outs) if outs else env
        elif isinstance(st, (ast.For, ast.AsyncFor, ast.While)):
            e = {k: list(v) for k, v in env.items()}
            if not isinstance(st, ast.While):
                kill(e, st.target)
            for s_ in st.body:
                e = transfer(s_, e)
            out = merge([env, e])
            for s_ in st.orelse:
                out = transfer(s_, out)
            return out
        elif isinstance(st, (ast.With, ast.AsyncWith)):
            for it in st.items:
                if it.optional_vars is not None:
                    kill(env, it.optional_vars)
            for s_ in st.body:
                env = transfer(s_, env)
        elif isinstance(st, ast.Try):
            e = {k: list(v) for k, v in env.items()}
            for s_ in st.body:
                e = transfer(s_, e)
            outs = [e]
            for h in st.handlers:
                eh = merge([env, e])
                for s_ in h.body:
                    eh = transfer(s_, eh)
                if not terminates(h.body):
                    outs.append(eh)
            out = merge(outs)
            for s_ in st.orelse + st.finalbody:
                out = transfer(s_, out)
            return out
        else:
            for n in ast.walk(st):
                if isinstance(n, ast.NamedExpr):
                    kill(env, n.target)
        return env

    result = {}

    def flow(stmts, env):
        for st in stmts:
            if not contains(st):
                env = transfer(st, env)
                continue
            if isinstance(st, ast.If):
                if any(x is node for x in ast.walk(st.test)):
                    result.update(env)
                elif any(contains(s_) for s_ in st.body):
                    flow(st.body, {k: list(v) for k, v in env.items()})
                else:
                    flow(st.orelse, {k: list(v) for k, v in env.items()})
            elif isinstance(st, (ast.For, ast.AsyncFor, ast.While)):
                after = transfer(st, {k: list(v) for k, v in env.items()})
                e = merge([env, after])
                if not isinstance(st, ast.While):
                    kill(e, st.target)
                if any(contains(s_) for s_ in st.body):
                    flow(st.body, e)
                elif any(contains(s_) for s_ in st.orelse):
                    flow(st.orelse, after)
                else:
                    result.update(env)
            elif isinstance(st, (ast.With, ast.AsyncWith)) and any(contains(s_) for s_ in st.body):
                for it in st.items:
                    if it.optional_vars is not None:
                        kill(env, it.optional_vars)
                flow(st.body, env)
            elif isinstance(st, ast.Try):
                for blk in [st.body] + [h.body for h in st.handlers] + [st.orelse, st.finalbody]:
                    if any(contains(s_) for s_ in blk):
                        if blk is st.body:
                            flow(blk, env)
                        else:
                            flow(blk, merge([env, transfer(st, {k: list(v) for k, v in env.items()})]))
                        break
            else:
                result.update(env)
            return True
        return False

    body = fn.body if hasattr(fn, "body") else []
    env0 = {}
    if isinstance(fn, (ast.FunctionDef, ast.AsyncFunctionDef)):
        a = fn.args
        for x in a.args + a.kwonlyargs + a.posonlyargs + ([a.vararg] if a.vararg else []) + ([a.kwarg] if a.kwarg else []):
            env0[x.arg] = [ast.Name(id=x.arg, ctx=ast.Load())]     # the parameter itself
    if not flow(body, env0):
        raise AnalysisError("reaching definitions: the program point is not inside the function")
    return result


def fold_index(n):
    """`(a, b, c)[1]` -> `b`;  `tuple(X for _ in range(k))[i]` / `[X for _ in range(k)][i]` -> `X` when X does not use the loop variable"""
    if not (isinstance(n, ast.Subscript) and isinstance(n.slice, ast.Constant) and isinstance(n.slice.value, int) and not isinstance(n.slice.value, bool)):
        return n
    i, v = n.slice.value, n.value
    if isinstance(v, (ast.Tuple, ast.List)) and not any(isinstance(x, ast.Starred) for x in v.elts) and -len(v.elts) <= i < len(v.elts):
        return v.elts[i]
    comp = None
    if isinstance(v, ast.Call) and isinstance(v.func, ast.Name) and v.func.id in ("tuple", "list") and len(v.args) == 1 and not v.keywords \
            and isinstance(v.args[0], (ast.GeneratorExp, ast.ListComp)):
        comp = v.args[0]
    elif isinstance(v, ast.ListComp):
        comp = v
    if comp is not None and len(comp.generators) == 1 and not comp.generators[0].ifs and isinstance(comp.generators[0].target, ast.Name):
        g = comp.generators[0]
        it = g.iter
        if isinstance(it, ast.Call) and isinstance(it.func, ast.Name) and it.func.id == "range" and len(it.args) == 1 and isinstance(it.args[0], ast.Constant) \
                and isinstance(it.args[0].value, int) and 0 <= i < it.args[0].value \
                and not any(isinstance(x, ast.Name) and x.id == g.target.id for x in ast.walk(comp.elt)):
            return comp.elt
    return n


def _strip_parents(e):
    """deepcopy must not follow the `_parent` back-links: detach them on a shallow structural copy"""
    import copy

    def clone(n):
        if isinstance(n, ast.AST):
            new = type(n)()
            for f, v in ast.iter_fields(n):
                setattr(new, f, clone(v))
            for a in ("lineno", "col_offset", "end_lineno", "end_col_offset"):
                if hasattr(n, a):
                    setattr(new, a, getattr(n, a))
            return new
        if isinstance(n, list):
            return [clone(x) for x in n]
        return n

    return clone(e)


class HelperView:
    """An Inliner for a helper method as seen from one call site in its caller: the helper's parameters stand for the caller's
    (inlined) argument expressions, so `src()` of an expression inside the helper reads as if the helper's body were written in
    the caller.  Lets a wiring rule follow a block that a refactoring moved into a helper method."""

    def __init__(self, caller_inl, call, helper_fn):
        self.inner = Inliner(helper_fn)
        params = [a.arg for a in helper_fn.args.args]
        if params and params[0] in ("self", "cls") and isinstance(call.func, ast.Attribute):
            params = params[1:]
        self.bind = {}
        for p, a in zip(params, call.args):
            self.bind[p] = caller_inl.expr(a)
        for k in call.keywords:
            if k.arg:
                self.bind[k.arg] = caller_inl.expr(k.value)
        # a parameter the call leaves out stands for its (literal) default
        a_ = helper_fn.args
        for p, d in zip([x.arg for x in a_.args][len(a_.args) - len(a_.defaults):], a_.defaults):
            if p not in self.bind and isinstance(d, ast.Constant):
                self.bind[p] = d
        for x, d in zip(a_.kwonlyargs, a_.kw_defaults):
            if x.arg not in self.bind and isinstance(d, ast.Constant):
                self.bind[x.arg] = d
        self.params = set()
        self.defs = self.inner.defs

    def expr(self, e):
        inner = self.inner.expr(e)
        bind = self.bind

        class T(ast.NodeTransformer):
            def visit_Name(self, n):
                if isinstance(n.ctx, ast.Load) and n.id in bind:
                    return _strip_parents(bind[n.id])
                return n

        return T().visit(inner)

    def src(self, e):
        return norm_src(self.expr(e))


def through_helpers(index_methods, inl, e, limit=32):
    """texts `e` can stand for (as Inliner.alternatives), where additionally a call `self.<helper>(...)` of a same-class method that only
    dispatches (every exit is `return <expr>`, at least one) stands for each of its returned expressions with the caller's arguments
    substituted (one helper level).  `x, y = self.h(a)` with `h` returning `f(a)` on one branch and `g(a)` on another thus reads
    `f(a)[0]` / `g(a)[0]` for x."""
    import itertools
    outs = []
    saved_alts = inl.alternatives(e, limit)
    if saved_alts is None:
        return None
    # re-derive expression trees for every alternative text (parse the normalised text back)
    local_defs = {d.name: d for d in getattr(inl.fn, "body", []) if isinstance(d, ast.FunctionDef)}   # closures defined in the function itself

    def helper_of(c):
        if isinstance(c.func, ast.Attribute) and isinstance(c.func.value, ast.Name) and c.func.value.id == "self":
            return index_methods.get(c.func.attr)
        if isinstance(c.func, ast.Name):
            return local_defs.get(c.func.id)
        return None

    for text in saved_alts:
        tree = ast.parse(text, mode="eval").body
        calls = [c for c in ast.walk(tree) if isinstance(c, ast.Call) and helper_of(c) is not None]
        expandable = []
        for c in calls:
            h = helper_of(c)
            rets = [r for r in walk_no_nested(h) if isinstance(r, ast.Return)]
            if rets and all(r.value is not None for r in rets) and not any(
                    isinstance(n, (ast.For, ast.While, ast.With, ast.Try)) for n in walk_no_nested(h)):
                ident = Inliner(ast.parse("pass"))
                hv = HelperView(ident, c, h)
                expandable.append((c, [hv.expr(r.value) for r in rets]))
        if not expandable:
            outs.append(text)
            continue
        total = 1
        for _, alts in expandable:
            total *= len(alts)
        if total > limit:
            return None
        for combo in itertools.product(*[alts for _, alts in expandable]):
            tree_i = ast.parse(text, mode="eval").body
            by_text = {norm_src(c): v for (c, _), v in zip(expandable, combo)}

            class T2(ast.NodeTransformer):
                def visit_Call(self, n):
                    k = norm_src(n)
                    if k in by_text:
                        return _strip_parents(by_text[k])
                    return self.generic_visit(n)

                def visit_Subscript(self, n):
                    return fold_index(self.generic_visit(n))

            t = norm_src(T2().visit(tree_i))
            if t not in outs:
                outs.append(t)
    return outs


def walk_with_local_defs(fn):
    """walk_no_nested(fn) plus the bodies of the closures defined in fn that fn calls by name (their code runs as part of every such call)"""
    local_defs = {d.name: d for d in getattr(fn, "body", []) if isinstance(d, ast.FunctionDef)}
    called = set()
    for n in walk_no_nested(fn):
        yield n
        if isinstance(n, ast.Call) and isinstance(n.func, ast.Name) and n.func.id in local_defs:
            called.add(n.func.id)
    for name in sorted(called):
        for n in walk_no_nested(local_defs[name]):
            yield n


def find_call(index_methods, fn, name, depth=1):
    """the unique call of `self.<name>(...)` in fn, or inside a method of the same class that fn calls (one level):
    -> (host function, call node, view) where view.src() gives caller-level text; None if not found / ambiguous"""
    inl = Inliner(fn)
    own = [c for c in walk_no_nested(fn) if isinstance(c, ast.Call) and isinstance(c.func, ast.Attribute) and c.func.attr == name]
    if len(own) == 1:
        return fn, own[0], inl
    if own or depth == 0:
        return None
    found = []
    for c in walk_no_nested(fn):
        if isinstance(c, ast.Call) and isinstance(c.func, ast.Attribute) and isinstance(c.func.value, ast.Name) and c.func.value.id == "self" \
                and c.func.attr in index_methods and c.func.attr != fn.name:
            h = index_methods[c.func.attr]
            inner = [x for x in walk_no_nested(h) if isinstance(x, ast.Call) and isinstance(x.func, ast.Attribute) and x.func.attr == name]
            if len(inner) == 1:
                found.append((h, inner[0], HelperView(inl, c, h)))
    return found[0] if len(found) == 1 else None


def expand_star_args(call, inl, arity):
    """positional argument expressions (inlined) of a call with `*T` arguments spread out: `*T` where T is a value of known length n
    (`arity(text)` -> n or None) gives T[0..n-1]; `*(f(x) for x in T)` / `*[f(x) for x in T]` gives f(T[0]) .. f(T[n-1]).
    None if a starred argument cannot be spread."""
    out = []
    for a in call.args:
        if not isinstance(a, ast.Starred):
            out.append(inl.expr(a))
            continue
        v = inl.expr(a.value)
        if isinstance(v, (ast.GeneratorExp, ast.ListComp)) and len(v.generators) == 1 and not v.generators[0].ifs \
                and isinstance(v.generators[0].target, ast.Name):
            src_, var = v.generators[0].iter, v.generators[0].target.id
            n = arity(norm_src(src_))
            if n is None:
                return None
            for k in range(n):
                repl = ast.Subscript(value=_strip_parents(src_), slice=ast.Constant(value=k), ctx=ast.Load())

                class T(ast.NodeTransformer):
                    def visit_Name(self, nd):
                        return _strip_parents(repl) if nd.id == var else nd

                out.append(T().visit(_strip_parents(v.elt)))
            continue
        n = arity(norm_src(v))
        if n is None:
            return None
        out += [ast.Subscript(value=_strip_parents(v), slice=ast.Constant(value=k), ctx=ast.Load()) for k in range(n)]
    return out


def bind_args(call, fn, method=True):
    """parameter name -> argument expression for one call of `fn` (positional and keyword arguments; `self` skipped for method calls;
    parameters left to their defaults are absent)"""
    params = [a.arg for a in fn.args.args]
    if method and params and params[0] in ("self", "cls"):
        params = params[1:]
    out = {}
    for p, a in zip(params, call.args):
        if not isinstance(a, ast.Starred):
            out[p] = a
    for k in call.keywords:
        if k.arg:
            out[k.arg] = k.value
    return out


def args_by_ref_names(call, fn, names, method=True):
    """argument expressions of `call` for the parameters of `fn` known (on the reference tree) by `names`: looked up by name when the
    function still has parameters of those names, otherwise (renamed) by their positions in `names`' order.  Missing -> None"""
    bound = bind_args(call, fn, method)
    params = [a.arg for a in fn.args.args]
    if method and params and params[0] in ("self", "cls"):
        params = params[1:]
    if set(names) <= set(params):
        return [bound.get(n) for n in names]
    return [bound.get(params[i]) if i < len(params) else None for i in range(len(names))]


def ref_params(fn, names, method=True):
    """the function's own names for the parameters known (on the reference tree) by `names`: the same names when it still has them,
    otherwise the parameters at the positions `names` had"""
    params = [a.arg for a in fn.args.args]
    if method and params and params[0] in ("self", "cls"):
        params = params[1:]
    if set(names) <= set(params):
        return list(names)
    return [params[i] if i < len(params) else None for i in range(len(names))]


def ref_positions(fn, names, method=True):
    """positions, in the function's own parameter list (self not counted for methods), of the parameters known by `names`"""
    params = [a.arg for a in fn.args.args]
    if method and params and params[0] in ("self", "cls"):
        params = params[1:]
    if set(names) <= set(params):
        return [params.index(n) for n in names]
    return list(range(len(names)))


def pos_of(fn, name, ref_index, ref_arity, method=True):
    """position of the parameter the reference tree calls `name` (there at `ref_index` of `ref_arity` parameters): by name when the function
    still has a parameter of that name (others may have been dropped, added or moved), else the reference position while the number of
    parameters is unchanged (a rename), else None"""
    params = [a.arg for a in fn.args.args]
    if method and params and params[0] in ("self", "cls"):
        params = params[1:]
    if name in params:
        return params.index(name)
    return ref_index if len(params) == ref_arity else None


def values_by_ref_names(fn, args, kwargs, names, method=True):
    """like args_by_ref_names for evaluated arguments (a hook's positional list and keyword dict)"""
    params = [a.arg for a in fn.args.args]
    if method and params and params[0] in ("self", "cls"):
        params = params[1:]
    bound = dict(zip(params, args))
    bound.update(kwargs)
    if set(names) <= set(params):
        return [bound.get(n) for n in names]
    return [bound.get(params[i]) if i < len(params) else None for i in range(len(names))]


def param_role(fn, pattern):
    """the parameter of fn that occurs as group 1 of the regular expression `pattern` somewhere in the body (e.g. r'(\\w+)\\.feed_used'):
    unique match or None"""
    import re
    params = {a.arg for a in fn.args.args}
    hits = {m.group(1) for m in re.finditer(pattern, norm_src(fn)) if m.group(1) in params}
    return hits.pop() if len(hits) == 1 else None


# --------------------------------------------------------------------------------------
# statement-level inlining of same-class helper methods ("extract method" undone)

def _has_return(node):
    return any(isinstance(n, ast.Return) for n in walk_no_nested(node)) or isinstance(node, ast.Return)


def _single_exit(stmts, make_result):
    """the statement list with every `return v` replaced by make_result(v) (a list of statements) and the statements after an `if` that
    returns moved into its branches; None if a return sits inside a loop/with/try (not convertible)"""
    if not stmts:
        return []
    s, rest = stmts[0], stmts[1:]
    if isinstance(s, ast.Return):
        return make_result(s.value, s)
    if isinstance(s, ast.Raise):
        return [s]
    if isinstance(s, ast.If) and _has_return(s):
        a = _single_exit(list(s.body) + [_strip_parents(x) for x in rest], make_result)
        b = _single_exit(list(s.orelse) + [_strip_parents(x) for x in rest], make_result)
        if a is None or b is None:
            return None
        new = ast.If(test=s.test, body=a or [ast.Pass()], orelse=b)
        return [ast.copy_location(new, s)]
    if isinstance(s, (ast.For, ast.AsyncFor, ast.While, ast.With, ast.AsyncWith, ast.Try)) and _has_return(s):
        return None
    tail = _single_exit(rest, make_result)
    return None if tail is None else [s] + tail


def flatten_function(fn, methods, keep=(), depth=2, cls_name=None, canonical=True):
    """a copy of `fn` in which calls (as whole statements: `self.h(...)`, `x = self.h(...)`, `return self.h(...)`) of helper methods of
    the same class are replaced by the helper's body - parameters read as the arguments, `return v` turned into the assignment the
    call site makes.  Helpers named in `keep` (the routines a rule addresses by name), generators, helpers with *args/**kwargs, and
    helpers that return from inside a loop are left as calls.  Lets a rule that reads the statements of a function read them again
    after a block was moved into a helper method."""
    counter = [0]

    def names_assigned(stmts):
        out = set()
        for s in stmts:
            for n in ast.walk(s):
                if isinstance(n, ast.Name) and isinstance(n.ctx, ast.Store):
                    out.add(n.id)
        return out

    def inline(call, h, make_result, caller_names):
        a = h.args
        static = [d for d in h.decorator_list if isinstance(d, ast.Name) and d.id == "staticmethod"]
        if len(static) != len(h.decorator_list) or a.vararg or a.kwarg or a.posonlyargs or a.kwonlyargs or any(
                isinstance(n, (ast.Yield, ast.YieldFrom)) for n in ast.walk(h)):
            return None
        params = [x.arg for x in a.args]
        through_class = isinstance(call.func.value, ast.Name) and call.func.value.id == cls_name
        if params and params[0] in ("self", "cls") and not static and not through_class:
            params = params[1:]
        bound = {}
        for p_, v_ in zip(params, call.args):
            if isinstance(v_, ast.Starred):
                return None
            bound[p_] = v_
        for k in call.keywords:
            if k.arg is None:
                return None
            bound[k.arg] = k.value
        defaults = dict(zip(params[len(params) - len(a.defaults):], a.defaults))
        for p_ in params:
            if p_ not in bound:
                if p_ not in defaults:
                    return None
                bound[p_] = defaults[p_]
        body = [_strip_parents(s) for s in h.body if not (isinstance(s, ast.Expr) and isinstance(s.value, ast.Constant))]
        assigned = names_assigned(body)
        counter[0] += 1
        suffix = f"__{h.name}{counter[0]}"
        rename, pre, lambdas = {}, [], {}
        for p_ in params:
            arg = bound[p_]
            if isinstance(arg, ast.Name) and (p_ not in assigned or arg.id == p_):
                rename[p_] = arg.id              # read (and, same name, re-bound) as the caller's variable
            elif isinstance(arg, ast.Constant) and p_ not in assigned:
                rename[p_] = arg
            elif p_ not in assigned and isinstance(arg, ast.Attribute) and isinstance(arg.value, ast.Name) and arg.value.id in ("operator", "np", "math"):
                rename[p_] = arg                 # a library function handed over as a value (operator.gt, np.minimum): read in place
            elif p_ not in assigned and isinstance(arg, ast.Lambda) and not (arg.args.vararg or arg.args.kwarg or arg.args.kwonlyargs or arg.args.defaults):
                lambdas[p_] = arg                # a lambda handed over: every call p(...) in the body reads as the lambda's body (its free names
                rename[p_] = p_                  # are the caller's, substituted after the helper's own names were renamed apart)
            else:
                rename[p_] = p_ + suffix if (p_ in caller_names) else p_
                pre.append(ast.Assign(targets=[ast.Name(id=rename[p_], ctx=ast.Store())], value=_strip_parents(arg)))
        for loc_ in assigned:
            if loc_ not in rename and loc_ in caller_names:
                rename[loc_] = loc_ + suffix

        class R(ast.NodeTransformer):
            def visit_Name(self, n):
                r = rename.get(n.id)
                if r is None:
                    return n
                if isinstance(r, (ast.Constant, ast.Attribute)):
                    return _strip_parents(r) if isinstance(n.ctx, ast.Load) else n
                return ast.copy_location(ast.Name(id=r, ctx=n.ctx), n)

            def visit_FunctionDef(self, n):
                return n

            def visit_Lambda(self, n):
                return n

        body = [R().visit(s) for s in body]
        if lambdas:
            class Beta(ast.NodeTransformer):
                def visit_Call(self, n):
                    self.generic_visit(n)
                    if isinstance(n.func, ast.Name) and n.func.id in lambdas and not n.keywords:
                        lam = lambdas[n.func.id]
                        if len(n.args) == len(lam.args.args) and not any(isinstance(a_, ast.Starred) for a_ in n.args):
                            sub = dict(zip([x.arg for x in lam.args.args], n.args))

                            class S(ast.NodeTransformer):
                                def visit_Name(self, x):
                                    return _strip_parents(sub[x.id]) if x.id in sub and isinstance(x.ctx, ast.Load) else x
                            return ast.copy_location(S().visit(_strip_parents(lam.body)), n)
                    return n
            body = [Beta().visit(s) for s in body]
            if any(isinstance(n_, ast.Name) and n_.id in lambdas for s in body for n_ in ast.walk(s)):
                return None          # the function value is used otherwise than by calling it: left as a call
        out = _single_exit(body, make_result)
        if out is None:
            return None
        for s in pre:
            ast.copy_location(s, call)
        return pre + out

    def helper_of(call):
        if isinstance(call, ast.Call) and isinstance(call.func, ast.Attribute) and isinstance(call.func.value, ast.Name) and \
                call.func.value.id in ("self", cls_name):
            h = methods.get(call.func.attr)
            if h is not None and h is not fn and h.name not in keep:
                return h
        return None

    def block(stmts, level, caller_names):
        out = []
        for s in stmts:
            done = None
            if level > 0:
                if isinstance(s, ast.Expr) and helper_of(s.value) is not None:
                    done = inline(s.value, helper_of(s.value), lambda v, r: [], caller_names)
                elif isinstance(s, ast.Assign) and len(s.targets) == 1 and helper_of(s.value) is not None:
                    tgt = s.targets[0]

                    def mk(v, r, tgt=tgt, s=s):
                        if v is None:
                            v = ast.Constant(value=None)
                        return [ast.copy_location(ast.Assign(targets=[_strip_parents(tgt)], value=v), r)]
                    done = inline(s.value, helper_of(s.value), mk, caller_names)
                elif isinstance(s, ast.Return) and helper_of(s.value) is not None:
                    done = inline(s.value, helper_of(s.value), lambda v, r: [ast.copy_location(ast.Return(value=v), r)], caller_names)
            if done is not None:
                caller_names = caller_names | names_assigned(done)      # later inlined helpers must not reuse these names
                out += block(done, level - 1, caller_names)
                continue
            for field in ("body", "orelse", "finalbody"):
                if isinstance(getattr(s, field, None), list) and not isinstance(s, (ast.FunctionDef, ast.ClassDef, ast.AsyncFunctionDef)):
                    setattr(s, field, block(getattr(s, field), level, caller_names))
            if isinstance(s, ast.Try):
                for hd in s.handlers:
                    hd.body = block(hd.body, level, caller_names)
            out.append(s)
        return out

    new = _strip_parents(fn)
    caller_names = names_assigned(new.body) | {x.arg for x in new.args.args}
    new.body = block(new.body, depth, caller_names)

    class Ops(ast.NodeTransformer):
        """operator.gt(a, b) -> a > b etc. (what a comparison handed over as a function value stands for)"""
        CMP = {"gt": ast.Gt, "lt": ast.Lt, "ge": ast.GtE, "le": ast.LtE, "eq": ast.Eq, "ne": ast.NotEq}
        BIN = {"add": ast.Add, "sub": ast.Sub, "mul": ast.Mult, "truediv": ast.Div}

        def visit_Call(self, n):
            self.generic_visit(n)
            d = dotted(n.func) or ""
            if d.startswith("operator.") and len(n.args) == 2 and not n.keywords:
                k = d.split(".", 1)[1]
                if k in self.CMP:
                    return ast.copy_location(ast.Compare(left=n.args[0], ops=[self.CMP[k]()], comparators=[n.args[1]]), n)
                if k in self.BIN:
                    return ast.copy_location(ast.BinOp(left=n.args[0], op=self.BIN[k](), right=n.args[1]), n)
            return n

    new = Ops().visit(new)
    if canonical:
        from .canon import Canon
        new = Canon({}, {}).visit(new)     # the inlined text in the same canonical orientation as everything else
    ast.fix_missing_locations(new)
    for node in ast.walk(new):
        for ch in ast.iter_child_nodes(node):
            ch._parent = node
    new._flattened = True
    if counter[0]:
        renumber_in_order(new)
    return new
