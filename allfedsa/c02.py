"""C02 — percent fed is the true optimum of the allocation problem.

Optimality is CBC's theorem (not decided).  Decided (N): the programme handed to CBC is the
documented max-min / weighted-sum problem: objective, consumption sum, intake caps, pins,
weights, and that the reported number is the first solve's objective value."""
from __future__ import annotations

import ast
from fractions import Fraction

from .core import AnalysisError, loc, dotted, norm_src, walk_no_nested
from .lpdb import OPT, build_all, implied_eq, equivalent_ineq, positive
from .symx import Cmp
from .rat import Rat, V, K, Idx
from .c01 import tmpl, is_first, V_, envname

FOODS = {"Seaweed": ("seaweed", 'consts["SEAWEED_KCALS"]'), "Methane_SCP": ("methane_scp", "1"),
         "Cellulosic_Sugar": ("cellulosic_sugar", "1")}

SUM_SPEC = (
    'variables["stored_food_to_humans"][month] + variables["crops_food_to_humans"][month]'
    ' + variables["seaweed_to_humans"][month] * consts["SEAWEED_KCALS"] + tc["milk_kcals"][month]'
    ' + variables["meat_eaten"][month] + variables["cellulosic_sugar_to_humans"][month]'
    ' + variables["methane_scp_to_humans"][month] + tc["greenhouse_crops"][month].kcals'
    ' + tc["fish"].to_humans.kcals[month]'
)

# food_name -> (LP family that the pin must constrain, coefficient text) : must agree with SUM_SPEC
PIN = {
    "outdoor_crops": ("crops_food_to_humans", "1"),
    "stored_food": ("stored_food_to_humans", "1"),
    "meat": ("meat_eaten", "1"),
    "methane_scp": ("methane_scp_to_humans", "1"),
    "cellulosic_sugar": ("cellulosic_sugar_to_humans", "1"),
    "seaweed": ("seaweed_to_humans", 'consts["SEAWEED_KCALS"]'),
}


def run(index, rep, db=None):
    rep.guard(inputs_only, index, rep)
    rep.guard(read, index, rep)
    rep.guard(feed_objective_months, index, rep)
    db = db or rep.guard(build_all, index)
    if db is None:
        return None
    rep.note_analysed("optimizer_templates", len(db.templates))
    rep.guard(obj, index, db, rep)
    rep.guard(consumption_sum, db, rep)
    rep.guard(caps, db, rep)
    rep.guard(animal, db, rep)
    # the feasible sets as each round states them: charge met exactly (human rounds); demand ceilings and never-rising totals (feed round)
    from .c01 import feed_biofuel
    rep.guard(feed_biofuel, db, rep, "C02")
    # ... and the resource balances: 'the largest value over all physically feasible allocations' is claimed for the programme only if its
    # feasible set is the physical one (an unconstrained withdrawal makes the optimum of the programme exceed the true optimum)
    from .c01 import sf, crop, meat, scp_cs, seaweed
    from .core import RuleAlias
    # (the cumulative meat cap, a recorded finding of C01, stays there)
    feas = RuleAlias(rep, lambda r: None if r == "C01.MEATCUM" else ("C02.FEAS_" + r.split(".", 1)[1] if r.startswith("C01.") else r))
    for grp in (sf, crop, meat, scp_cs, seaweed):
        rep.guard(grp, db, feas)
    return db


def obj(index, db, rep):
    rule = "C02.OBJ"
    for t in tmpl(db, "add_maximize_min_month_objective_to_model", "to_humans"):
        if t.aborted:
            continue
        target = db.spec(t, 'variables["objective_function"] - variables["consumed_kcals"][month]')
        got = equivalent_ineq(t, target)
        rep.check(bool(got), rule, f"add_maximize_min_month_objective_to_model[months{t.mc}|{envname(t)}]",
                  "the max-min objective variable is not bounded above by this month's consumed kcals", loc=OPT)
    # objective of the model is the objective variable, sense is maximise
    from .c01 import order as _order_rule  # noqa: F401  (same builder, same flattened view)
    fn = index.flat_func(OPT, "Optimizer.add_variables_and_constraints_to_model", keep=(
        "add_variable_from_prefixes", "add_resource_specific_conditions_to_model", "add_feed_biofuel_to_model",
        "add_total_human_consumption_to_model", "add_percentage_intake_constraints", "add_maximize_min_month_objective_to_model",
        "add_maximize_sum_total_feed_used_by_animals", "add_conditions_to_model", "load_variable_names_and_prefixes"))
    objs = [s for s in walk_no_nested(fn) if isinstance(s, ast.AugAssign) and isinstance(s.target, ast.Name)
            and s.target.id == "model" and not isinstance(s.value, ast.Tuple)]
    ok = len(objs) == 1 and norm_src(objs[0].value) == "variables['objective_function']" and \
        objs[0] in fn.body
    rep.check(ok, rule, "model-objective", "the LP objective is no longer exactly variables['objective_function'], "
              "set unconditionally at the end of add_variables_and_constraints_to_model", loc=loc(OPT, fn))
    for m in ("optimize_to_humans", "optimize_feed_to_animals"):
        f = index.flat_func(OPT, "Optimizer." + m, keep=("run_optimizations_on_constraints", "add_variables_and_constraints_to_model",
                                                        "optimize_to_humans", "optimize_feed_to_animals"))
        lp = [c for c in ast.walk(f) if isinstance(c, ast.Call) and dotted(c.func) == "LpProblem"]
        ok = len(lp) == 1 and any(k.arg == "sense" and norm_src(k.value) == "LpMaximize" for k in lp[0].keywords)
        rep.check(ok, rule, f"{m}:LpProblem-sense", "the LP is not created with sense=LpMaximize", loc=loc(OPT, f))
    # the objective loop covers every month
    fors = [s for s in ast.walk(fn) if isinstance(s, ast.For) and any(
        isinstance(c, ast.Call) and dotted(c.func) == "self.add_maximize_min_month_objective_to_model" for c in ast.walk(s))]
    if not fors:
        # ... or the objective routine, called once, loops over every month itself (its constraint sits in that loop)
        mm_ = index.func(OPT, "Optimizer.add_maximize_min_month_objective_to_model")
        fors = [s for s in mm_.body if isinstance(s, ast.For) and any(isinstance(a_, ast.AugAssign) for a_ in ast.walk(s))]
    ok = len(fors) == 1 and isinstance(fors[0].iter, ast.Call) and \
        [norm_src(a) for a in fors[0].iter.args] in (["0", "self.NMONTHS"], ["self.NMONTHS"])
    rep.check(ok, rule, "objective-loop-range", "the max-min constraints are not added for every month 0..NMONTHS-1",
              loc=loc(OPT, fn))
    rep.require_min(rule, 7)


def feed_objective_months(index, rep):
    rule = "C02.OBJ"
    # the feed round's total: every month of the horizon is added up - each range iterated by the objective routine and the helpers it calls
    # (loop or comprehension) is range(NMONTHS): self.NMONTHS itself, or a parameter every caller in the class binds to it
    from .core import bind_args
    ocls = index.methods(OPT, "Optimizer")
    entry = ocls.get("add_maximize_sum_total_feed_used_by_animals")
    if entry is None:
        raise AnalysisError("Optimizer.add_maximize_sum_total_feed_used_by_animals missing")

    def full_horizon(e, f_, depth=0):
        t = norm_src(e)
        if t == "self.NMONTHS":
            return True
        if isinstance(e, ast.Name) and e.id in [a.arg for a in f_.args.args] and depth < 3:
            sites = [(g_, c) for g_ in ocls.values() for c in ast.walk(g_) if isinstance(c, ast.Call) and dotted(c.func) == "self." + f_.name]
            return bool(sites) and all(e.id in bind_args(c, f_) and full_horizon(bind_args(c, f_)[e.id], g_, depth + 1) for g_, c in sites)
        if isinstance(e, ast.Name):
            defs_ = [s_.value for s_ in walk_no_nested(f_) if isinstance(s_, ast.Assign) and any(isinstance(t_, ast.Name) and t_.id == e.id for t_ in s_.targets)]
            return len(defs_) == 1 and full_horizon(defs_[0], f_, depth + 1)
        return False

    todo, seen_f, bad_r, n_r = [entry], set(), [], 0
    while todo:
        f_ = todo.pop()
        if f_.name in seen_f:
            continue
        seen_f.add(f_.name)
        for n_ in ast.walk(f_):
            its = []
            if isinstance(n_, ast.For):
                its.append(n_.iter)
            if isinstance(n_, ast.comprehension):
                its.append(n_.iter)
            for it_ in its:
                if isinstance(it_, ast.Name):
                    defs_i = [s_.value for s_ in walk_no_nested(f_) if isinstance(s_, ast.Assign) and any(isinstance(t_, ast.Name) and t_.id == it_.id for t_ in s_.targets)]
                    if len(defs_i) == 1:
                        it_ = defs_i[0]
                if isinstance(it_, ast.Call) and (dotted(it_.func) or "").startswith("self.") and dotted(it_.func)[5:] in ocls:
                    # the months come from a helper: what it returns must be the full range
                    h_ = ocls[dotted(it_.func)[5:]]
                    rv = [r_.value for r_ in walk_no_nested(h_) if isinstance(r_, ast.Return) and r_.value is not None]
                    n_r += 1
                    okh = bool(rv) and all(isinstance(v_, ast.Call) and dotted(v_.func) == "range" and (
                        (len(v_.args) == 1 and full_horizon(v_.args[0], h_)) or (len(v_.args) == 2 and norm_src(v_.args[0]) == "0" and full_horizon(v_.args[1], h_)))
                        for v_ in rv)
                    if not okh:
                        bad_r.append(f"{f_.name}: months from {h_.name}() = {'; '.join(norm_src(v_)[:70] for v_ in rv)}")
                if isinstance(it_, ast.Call) and dotted(it_.func) == "range":
                    n_r += 1
                    args_ = list(it_.args)
                    okr = (len(args_) == 1 and full_horizon(args_[0], f_)) or (len(args_) == 2 and norm_src(args_[0]) == "0" and full_horizon(args_[1], f_))
                    if not okr:
                        bad_r.append(f"{f_.name}: {norm_src(it_)}")
            if isinstance(n_, ast.Call) and (dotted(n_.func) or "").startswith("self.") and dotted(n_.func)[5:] in ocls and len(seen_f) < 8 \
                    and dotted(n_.func)[5:] in ("get_nonhuman_consumption_sum",) + tuple(k_ for k_ in ocls if k_.startswith("get_") and "sum" in k_):
                todo.append(ocls[dotted(n_.func)[5:]])
    rep.check(n_r >= 1 and not bad_r, rule, "feed-objective:every-month",
              "the feed round's objective total does not run over every month of the horizon (" + "; ".join(bad_r[:3]) + "): feed or biofuel of the "
              "months left out does not count, so the reported total is below the true optimum", loc=loc(OPT, entry))


def consumption_sum(db, rep):
    rule = "C02.SUM"
    n = 0
    for t in tmpl(db, "add_total_human_consumption_to_model", "to_humans"):
        if t.aborted:
            continue
        target = db.spec(
            t, f'variables["consumed_kcals"][month] * consts["BILLION_KCALS_NEEDED"] / 100 - ({SUM_SPEC})')
        ok, resid = implied_eq(t, target)
        flags = ",".join(k[11:] for k, v in sorted(t.decisions.items()) if k.startswith("consts.ADD_") and v)
        n += 1
        rep.check(ok, rule, f"add_total_human_consumption_to_model[months{t.mc}|{flags}]",
                  "consumed_kcals[m] x needs/100 is not the sum of the nine contributions with the documented "
                  "coefficients at month m", loc=OPT, detail=f"residual {resid}")
    rep.require_min(rule, 3)


def caps(db, rep):
    rule = "C02.CAPS"
    for t in tmpl(db, "add_percentage_intake_constraints"):
        if t.aborted:
            continue
        for food, (fam, coef) in FOODS.items():
            if not t.decisions.get("consts.ADD_" + food.upper()):
                continue
            uses = [("FEED", "feed"), ("BIOFUEL", "biofuel")]
            env = f"{t.opt_type}|months{t.mc}"
            for U, tag in uses:
                target = db.spec(
                    t, f'variables["{fam}_{tag}"][month] * {coef} - consts["inputs"]["MAX_{food.upper()}_AS_PERCENT_KCALS_{U}"]'
                       f' / 100 * tc["{tag}"].kcals[month]')
                got = equivalent_ineq(t, target)
                rep.check(bool(got), rule, f"intake-cap[{food}|{U}|{env}]",
                          f"cap on {food} in {tag} is not MAX_{food.upper()}_AS_PERCENT_KCALS_{U}/100 x that month's {tag} charge",
                          loc=OPT)
            if t.opt_type == "to_humans":
                lim = f'consts["inputs"]["MAX_{food.upper()}_AS_PERCENT_KCALS_HUMANS"] / 100'
                t1 = db.spec(t, f'variables["{fam}_to_humans"][month] * {coef} - {lim} * consts["POP"] * consts["KCALS_MONTHLY"] / 1e9')
                t2 = db.spec(t, f'variables["{fam}_to_humans"][month] * {coef} - {lim} * variables["consumed_kcals"][month]'
                                f' * consts["BILLION_KCALS_NEEDED"] / 100')
                rep.check(bool(equivalent_ineq(t, t1)), rule, f"intake-cap[{food}|HUMANS-initial-pop|{env}]",
                          f"cap of {food} relative to the initial population's need is missing or altered", loc=OPT)
                rep.check(bool(equivalent_ineq(t, t2)), rule, f"intake-cap[{food}|HUMANS-actual-intake|{env}]",
                          f"cap of {food} relative to actual intake is missing or altered", loc=OPT)
            else:
                # human caps must not constrain the animal round (the pins fix human consumption there)
                pass
    rep.require_min(rule, 30)


def _sum_atom(fam):
    return Rat.atom(V(fam, ("sum", (0, 0), (1, 0), 0)))


def animal(db, rep):
    rule = "C02.ANIMAL"
    sk = Rat.atom(K(("consts", "SEAWEED_KCALS"), None))
    for t in tmpl(db, "add_maximize_sum_total_feed_used_by_animals", "to_animals"):
        if t.aborted:
            continue
        on = {k[11:] for k, v in t.decisions.items() if k.startswith("consts.ADD_") and v}
        feed = Rat.const(0)
        bio = Rat.const(0)
        for flagname, pre, coef in (("ADD_STORED_FOOD", "stored_food", None), ("ADD_OUTDOOR_GROWING", "crops_food", None),
                                    ("ADD_SEAWEED", "seaweed", sk), ("ADD_CELLULOSIC_SUGAR", "cellulosic_sugar", None),
                                    ("ADD_METHANE_SCP", "methane_scp", None)):
            if flagname[4:] in {x[4:] if x.startswith("ADD_") else x for x in on} or flagname in on:
                f = _sum_atom(pre + "_feed")
                b = _sum_atom(pre + "_biofuel")
                if coef is not None:
                    f, b = f * coef, b * coef
                feed, bio = feed + f, bio + b
        objv = Rat.atom(V("objective_function", None))
        target = objv - (Rat.const(Fraction(2, 3)) * feed + Rat.const(Fraction(1, 3)) * bio)
        got = equivalent_ineq(t, target) if target.vars() != {V("objective_function", None)} else ("n/a", None)
        rep.check(bool(got), rule, f"weighted-objective[{','.join(sorted(on))}]",
                  "animal-round objective is not bounded by 2/3 x total feed + 1/3 x total biofuel over all months "
                  "(feed weighted exactly twice biofuel)", loc=OPT,
                  detail=f"required {target} <= 0; got {[str(c) for _, c in t.constraints]}"[:600])
    pins(db, rep, rule)
    rep.require_min(rule, 30)


def pins(db, rep, rule):
    """round 2 pins every food's human consumption to the handed-off minimum, every month, within a small symmetric tolerance (used by
    C02.ANIMAL - the feed round's optimum is taken 'given the pinned human consumption' - and by C03.PIN - people come first)"""
    for flagname, row in db.resources.items():
        food = row["food_name"]
        if food not in PIN:
            raise AnalysisError(f"resource {flagname} has food_name {food!r} unknown to the specification")
        fam, coef = PIN[food]
        seen = set()
        for t in tmpl(db, "resource:" + flagname, "to_animals"):
            if t.aborted:
                continue
            small = t.decisions.get("(-10000000 + consts.POP) < 0")
            import re as _re2
            extra = ",".join(f"{k_}={'T' if v_ else 'F'}" for k_, v_ in sorted(t.decisions.items())
                             if not _re2.fullmatch(r"consts\.[A-Za-z_0-9]+", k_) and k_ != "(-10000000 + consts.POP) < 0")
            k = (str(t.mc), small, extra)
            if k in seen:
                continue
            seen.add(k)
            var = db.spec(t, f'variables["{fam}"][month] * {coef}')
            cons = db.spec(t, f'tc["min_human_food_consumption"]["{food}"].in_units_bil_kcals_thou_tons_thou_tons_per_month()[month].kcals')
            lo = hi = None
            for _, c in t.constraints:
                if not isinstance(c, Cmp) or c.sense != "<=" or not c.expr.vars():
                    continue
                vs = c.expr.vars()
                if vs != var.vars():
                    continue
                # c.expr = a*cons - var (lower)  or  var - b*cons (upper)
                cv = c.expr.coeff(sorted(vs, key=repr)[0]) / var.coeff(sorted(vs, key=repr)[0])
                if not cv.is_const():
                    continue
                rest = c.expr - cv * var
                ratio = rest / cons if not cons.is_zero() else None
                if ratio is None or not ratio.is_const():
                    continue
                if cv.const_value() < 0:
                    lo = ratio.const_value() / -cv.const_value()
                else:
                    hi = -ratio.const_value() / cv.const_value()
            ok = lo is not None and hi is not None and lo < 1 < hi and (1 - lo) == (hi - 1) and (hi - 1) <= Fraction(1, 1000)
            rep.check(ok, rule, f"pin[{food}|months{t.mc}|{'small-pop' if small else 'normal'}{'|' + extra if extra else ''}]",
                      f"round 2 does not pin {fam} (x {coef}) to the handed-off minimum human consumption of {food} within a "
                      f"symmetric tolerance <= 1e-3 (found lower x{lo}, upper x{hi})", loc=OPT)


def read(index, rep):
    """percent fed is read from the first solve, after the success assertion, before any re-optimisation"""
    rule = "C02.READ"
    # reporting / asserting helpers the driver delegates to are read as part of it; the LP steps stay calls
    fn = index.flat_func(OPT, "Optimizer.run_optimizations_on_constraints", keep=(
        "constrain_next_optimization_to_have_same_minimum_starvation", "constrain_next_optimization_to_have_same_feed_biofuel",
        "optimize_best_food_consumption_to_go_to_humans", "reduce_fluctuations_with_a_final_optimization"))
    body = fn.body
    first_solve = read_i = first_helper = assert_i = None
    ret = None
    read_name = None
    status_name = None
    # the LP is the parameter the routine solves (whatever it is called and wherever it stands in the signature)
    solved = [st.value.func.value.id for st in body if isinstance(st, ast.Assign) and isinstance(st.value, ast.Call)
              and isinstance(st.value.func, ast.Attribute) and st.value.func.attr == "solve" and isinstance(st.value.func.value, ast.Name)
              and st.value.func.value.id in [a.arg for a in fn.args.args]]
    model_p = solved[0] if solved else "model"
    flag_ok = False
    for i, st in enumerate(body):
        txt = norm_src(st)
        if first_solve is None and isinstance(st, ast.Assign) and f"{model_p}.solve(" in txt and isinstance(st.targets[0], ast.Name):
            first_solve = i
            status_name = st.targets[0].id
        if isinstance(st, ast.If) and status_name and f"assert {status_name} == 1" in txt and assert_i is None:
            assert_i = i
            # the flag guarding the assertion is literally True
            if isinstance(st.test, ast.Name):
                flag_ok = any(isinstance(s_, ast.Assign) and isinstance(s_.targets[0], ast.Name) and s_.targets[0].id == st.test.id
                              and isinstance(s_.value, ast.Constant) and s_.value.value is True for s_ in body[:i]) and not any(
                    isinstance(s_, ast.Assign) and isinstance(s_.targets[0], ast.Name) and s_.targets[0].id == st.test.id
                    and not (isinstance(s_.value, ast.Constant) and s_.value.value is True) for s_ in body)
        if assert_i is None and isinstance(st, ast.Assert) and status_name and norm_src(st.test).startswith(f"{status_name} == 1"):
            assert_i = i
            flag_ok = True
        if isinstance(st, ast.Assign) and norm_src(st.value) == f"{model_p}.objective.value()":
            read_i = i
            read_name = st.targets[0].id if isinstance(st.targets[0], ast.Name) else None
        if first_helper is None and any(isinstance(c, ast.Call) and (dotted(c.func) or "").startswith("self.") for c in ast.walk(st)):
            first_helper = i
        if isinstance(st, ast.Return):
            ret = st
    if None in (first_solve, read_i, assert_i):
        raise AnalysisError("run_optimizations_on_constraints: first solve / success assertion / objective read not found")
    ok = first_solve < assert_i < read_i and (first_helper is None or read_i < first_helper)
    rep.check(ok, rule, "read-after-first-solve",
              "percent fed is not read from model.objective.value() right after the first successful solve and before the "
              "tie-breaking re-optimisations", loc=loc(OPT, fn))
    rep.check(flag_ok, rule, "success-assertion-enabled", "the flag guarding the success assertion is not literally True",
              loc=loc(OPT, fn))
    rep.check(ret is not None and isinstance(ret.value, ast.Name) and ret.value.id == read_name, rule,
              "returned-value", "the function no longer returns the value read after the first solve", loc=loc(OPT, fn))
    BUILD = ("run_optimizations_on_constraints", "add_variables_and_constraints_to_model", "optimize_to_humans", "optimize_feed_to_animals")
    for m in ("optimize_to_humans", "optimize_feed_to_animals"):
        f = index.flat_func(OPT, "Optimizer." + m, keep=BUILD)       # a shared build-and-solve helper is read as part of either entry point
        r = [s for s in walk_no_nested(f) if isinstance(s, ast.Return)]
        from .core import Inliner as _Inl2
        ok = bool(r) and isinstance(r[-1].value, ast.Tuple) and len(r[-1].value.elts) == 4 and \
            _Inl2(f).at(r[-1]).src(r[-1].value.elts[3]).startswith("self.run_optimizations_on_constraints(")
        rep.check(ok, rule, f"{m}:fourth-return-slot", "fourth element of the returned tuple is not the first-solve optimum",
                  loc=loc(OPT, f))
    rep.require_min(rule, 5)


def inputs_only(index, rep):
    """the programme handed to the solver is a function of this Optimizer's own inputs: optimizer.py keeps no module-level or
    class-level container that its methods write (such a container carries values from one optimisation into the next, so a
    later round or simulation would solve a problem built from another one's constants)"""
    from .c14 import shared_container_writes
    rule = "C02.INPUTS"
    n = 0
    for name, kind, st, bad in shared_container_writes(index, OPT):
        n += 1
        rep.check(not bad, rule, f"shared-container:{name}",
                  f"the {kind}-level container {name} is written while the programme is built (at {bad[:4]}): constants of an earlier "
                  "optimisation leak into later ones", loc=loc(OPT, st))
    mod = index.module(OPT)
    decs = [(fn, d) for fn in ast.walk(mod) if isinstance(fn, ast.FunctionDef) for d in fn.decorator_list
            if "cache" in norm_src(d).lower() or "memo" in norm_src(d).lower()]
    rep.check(not decs, rule, "no-memoised-builder",
              "a programme-building method is memoised (" + ", ".join(f.name for f, _ in decs[:3]) + "): its result would be reused for "
              "different inputs of the same key", loc=loc(OPT, decs[0][0]) if decs else OPT)
    glb = [g for g in ast.walk(mod) if isinstance(g, (ast.Global, ast.Nonlocal))]
    rep.check(not [g for g in glb if isinstance(g, ast.Global)], rule, "no-global-state", "optimizer.py declares `global` state", loc=OPT)
    rep.note_analysed("optimizer_shared_containers", n)


def describe(rep):
    rep.explanation = (
        "Static analysis of the LP construction in src/optimizer/optimizer.py: constraint templates extracted by abstract "
        "evaluation for every month class x round x flag combination are compared (exact rational identity up to a "
        "positive factor) with the documented max-min objective, the nine-term consumption sum, the 3x(2+2) intake caps, "
        "the 2:1 feed:biofuel weighted objective and the symmetric round-2 pins; statement-order analysis shows that the "
        "reported optimum is the first solve's objective value; C02.INPUTS: optimizer.py keeps no class-/module-level container "
        "that its methods write and memoises no builder, so the programme depends on this optimiser's inputs only. This decides that the programme given to CBC is the "
        "documented one (what the property's why_tests_cant names: wrong coefficient, month index off by one, dropped "
        "term). Optimality of CBC's answer itself is NOT decided."
    )
    rep.assumptions = ["CBC returns an optimal point within gapRel of the LP it is given",
                       "waste percentages < 100; NMONTHS in 48..120"]
