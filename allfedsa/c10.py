"""C10 — unit conversions are mutually consistent and anchored to the population's needs.

Proof-level for the stated clauses: the multiplier tables and conversion code of
src/food_system/unit_conversions.py are evaluated into exact rational functions of the symbols
(kcals_daily, fat_daily, protein_daily, population); every obligation is a polynomial identity
decided by cross-multiplication, hence valid for all non-zero parameter values.  Floating-point
rounding of the running code is outside the claim."""
from __future__ import annotations

import ast
import itertools

from .core import AnalysisError, loc, norm_src, walk_no_nested, dotted
from .rat import Rat
from .symx import Interp, Obj, Path, PDict, PList, Opaque, Unsupported, Fork, MonthSplit, Abort, canon

UC = "src/food_system/unit_conversions.py"
FOOD = "src/food_system/food.py"

SUFFIXES = ["", " each month", " per month"]
NUTR = ["kcals", "fat", "protein"]


def new_interp(index, conv=None, self_attrs=None):
    it = Interp(decisions={})
    cls = index.cls(UC, "UnitConversions")
    it.classes = {"UnitConversions": cls}
    selfobj = Obj(cls, dict(self_attrs or {}), "self")

    def hook(interp, dotted, args, kwargs, node):
        if dotted == "self.get_conversions":
            return conv
        if dotted == "self.get_Food_class":
            return Opaque("FoodClass")
        callee_is_food = dotted == "Food"
        if not callee_is_food and isinstance(node.func, ast.Name):
            v = interp.call_env.get(node.func.id) if getattr(interp, "call_env", None) else None
            callee_is_food = isinstance(v, Opaque) and v.name == "FoodClass"   # a local bound to self.get_Food_class()
        if callee_is_food:
            if args:
                raise Unsupported("positional Food(...) construction", node)
            return PDict(dict(kwargs))
        return NotImplemented

    it.call_hook = hook
    return it, selfobj


def sym(name):
    return Rat.atom(("param", name))


def build_conversions(index):
    it, conv = new_interp(index)
    conv.name = "conversions"
    fn = index.func(UC, "UnitConversions.set_nutrition_requirements")
    params = [a.arg for a in fn.args.args][1:]
    expect = ["kcals_daily", "fat_daily", "protein_daily", "include_fat", "include_protein", "population"]
    if len(params) != len(expect):
        raise AnalysisError(f"set_nutrition_requirements signature changed: {params}")
    vals = [sym("kcals_daily"), sym("fat_daily"), sym("protein_daily"), Path(("flag", "include_fat")),
            Path(("flag", "include_protein")), sym("population")]
    from .core import bind_named
    vals, kw_ = bind_named(fn, list(zip(expect, vals)))
    # `not include_fat` forks on the flag; fix both true (values irrelevant to the numeric obligations)
    it.decisions = {"flag.include_fat": True, "flag.include_protein": True}
    try:
        it.call_function(fn, vals, kw_, conv)
    except (Unsupported, Fork, MonthSplit) as e:
        raise AnalysisError(f"set_nutrition_requirements outside the analysed fragment: {e!r}")
    return conv


def tables(index, conv):
    out = {}
    for n in NUTR:
        name = {"kcals": "get_kcal_multipliers", "fat": "get_fat_multipliers", "protein": "get_protein_multipliers"}[n]
        it, selfobj = new_interp(index, conv)
        fn = index.func(UC, "UnitConversions." + name)
        try:
            d = it.call_function(fn, [], {}, selfobj)
        except (Unsupported, Fork, MonthSplit) as e:
            raise AnalysisError(f"{name} outside the analysed fragment: {e!r}")
        if not isinstance(d, PDict):
            raise AnalysisError(f"{name} no longer returns a dict literal")
        tab = {}
        for k, v in d.d.items():
            if not isinstance(k, str):
                raise AnalysisError(f"{name}: non-string unit key {k!r}")
            tab[k] = it.to_rat(v)
        out[n] = tab
    return out


def single_implementation(index, rep):
    """the conversion routines analysed here are the ones every quantity uses: no class derived from UnitConversions replaces one of
    them with logic of its own (an override that only hands over to super() is none)"""
    rule = "C10.IMPL"
    uc_methods = index.methods(UC, "UnitConversions")
    conv_names = {n for n in uc_methods if n.startswith(("in_units", "get_conversion", "get_kcal_multipliers", "get_fat_multipliers",
                                                          "get_protein_multipliers", "get_units", "set_units", "get_conversions"))}
    n = 0
    for rel in index.py_files("src"):
        for c in [x for x in ast.walk(index.module(rel)) if isinstance(x, ast.ClassDef)]:
            if not any(isinstance(b, ast.Name) and b.id == "UnitConversions" for b in c.bases):
                continue
            own = {m.name: m for m in c.body if isinstance(m, ast.FunctionDef)}
            bad = []
            for name in sorted(conv_names & set(own)):
                body = [s_ for s_ in own[name].body if not (isinstance(s_, ast.Expr) and isinstance(s_.value, ast.Constant))]
                only_super = len(body) == 1 and isinstance(body[0], ast.Return) and isinstance(body[0].value, ast.Call) \
                    and norm_src(body[0].value.func) == f"super().{name}"
                if not only_super:
                    bad.append(f"{c.name}.{name} (line {own[name].lineno})")
            n += 1
            rep.check(not bad, rule, f"{rel}:{c.name}: conversion routines inherited unchanged",
                      f"{', '.join(bad)} replaces a conversion routine of UnitConversions with its own logic: quantities of this class are not "
                      "converted by the tables whose identities are checked here (round trips, anchors, via-intermediate equality)", loc=loc(rel, c))
    if n < 1:
        raise AnalysisError("no class derives from UnitConversions (Food expected)")


def no_late_binding(index, rep):
    """a formula kept for later (a lambda or local function stored in a table) that is written inside a loop or a comprehension and reads the
    loop variable sees the variable's LAST value when it is finally called: every entry of the table computes the last nutrient's / unit's
    factor.  (A function called on the spot - a sort key, an argument of map/filter - is not kept and is left alone.)"""
    rule = "C10.BIND"
    n = 0
    for rel in (UC, FOOD):
        tree = index.module(rel)
        for node in ast.walk(tree):
            if isinstance(node, (ast.ListComp, ast.SetComp, ast.GeneratorExp, ast.DictComp)):
                vars_ = {x.id for g in node.generators for x in ast.walk(g.target) if isinstance(x, ast.Name)}
                bodies = [node.elt] if not isinstance(node, ast.DictComp) else [node.key, node.value]
            elif isinstance(node, ast.For):
                vars_ = {x.id for x in ast.walk(node.target) if isinstance(x, ast.Name)}
                bodies = node.body
            else:
                continue
            for b in bodies:
                for lam in [x for x in ast.walk(b) if isinstance(x, (ast.Lambda, ast.FunctionDef))]:
                    params = {a.arg for a in lam.args.args + lam.args.kwonlyargs}
                    body = [lam.body] if isinstance(lam, ast.Lambda) else lam.body
                    free = {x.id for s_ in body for x in ast.walk(s_) if isinstance(x, ast.Name) and isinstance(x.ctx, ast.Load)} - params
                    hit = sorted(free & vars_)
                    par = getattr(lam, "_parent", None)
                    immediate = (isinstance(par, ast.Call) and (lam in par.args or par.func is lam)) or isinstance(par, ast.keyword)
                    if hit and not immediate:
                        n += 1
                        rep.violation(rule, f"formula-closes-over-loop-variable:{hit[0]}:{norm_src(lam)[:60]}",
                                      f"this formula is kept for later but reads the loop variable `{hit[0]}`, which has its last value by the time the "
                                      "formula is called (late binding): every entry built in this loop converts with the last entry's factor",
                                      loc=loc(rel, lam))
    if n == 0:
        rep.ok(rule, "no stored formula of the conversion tables reads a loop variable", detail="lambdas / local functions written in loops and comprehensions of unit_conversions.py and food.py")


def run(index, rep):
    rep.trusted_base = [
        "CPython ast module parses the source the interpreter would run",
        "allfedsa.rat exact Fraction-based polynomial arithmetic (identity by cross-multiplication)",
        "allfedsa.symx evaluation rules for Assign/If/Return/BinOp/dict literals (the fragment these functions use)",
        "parameters (kcals_daily, fat_daily, protein_daily, population) non-zero; real arithmetic (float rounding not modelled)",
    ]
    rep.guard(pure, index, rep)
    rep.guard(single_implementation, index, rep)
    rep.guard(no_late_binding, index, rep)
    conv = rep.guard(build_conversions, index)
    if conv is None:
        return
    tabs = rep.guard(tables, index, conv)
    if tabs is None:
        return
    rep.note_analysed("table_sizes", {n: len(t) for n, t in tabs.items()})
    rep.guard(table_rules, tabs, rep)
    rep.guard(conv_rules, index, conv, tabs, rep)
    rep.guard(anchor_rules, conv, tabs, rep)
    rep.guard(form_rules, index, conv, tabs, rep)
    rep.trusted_base = [
        "CPython ast module parses the source the interpreter would run",
        "allfedsa.rat exact Fraction-based polynomial arithmetic (identity by cross-multiplication)",
        "allfedsa.symx evaluation rules for Assign/If/Return/BinOp/dict literals (the fragment these functions use)",
        "parameters (kcals_daily, fat_daily, protein_daily, population) non-zero; real arithmetic (float rounding not modelled)",
    ]


def bases(tab):
    b = []
    for k in tab:
        base = k
        for s in (" each month", " per month"):
            if k.endswith(s):
                base = k[: -len(s)]
        if base not in b:
            b.append(base)
    return b


def table_rules(tabs, rep):
    rule = "C10.TABLE"
    for n, tab in tabs.items():
        for base in bases(tab):
            forms = [base + s for s in SUFFIXES]
            missing = [f for f in forms if f not in tab]
            rep.check(not missing, rule, f"{n}:{base}:forms-present",
                      f"unit {base!r} lacks the form(s) {missing} in the {n} table (a total/per-month/each-month quantity "
                      "could not be converted)", loc=UC)
            present = [f for f in forms if f in tab]
            same = all(tab[f] == tab[present[0]] for f in present)
            rep.check(same, rule, f"{n}:{base}:forms-equal",
                      f"the total / each-month / per-month forms of {base!r} have different multipliers in the {n} table",
                      loc=UC, detail="; ".join(f"{f!r}: {tab[f]}" for f in present))
            rep.check(not tab[present[0]].is_zero(), rule, f"{n}:{base}:nonzero", "zero multiplier", loc=UC)
    rep.require_min(rule, 45)


def conv_rules(index, conv, tabs, rep):
    rule = "C10.CONV"
    fn = index.func(UC, "UnitConversions.get_conversion")
    keys = {n: list(tabs[n]) for n in NUTR}
    nmax = max(len(v) for v in keys.values())
    checked = {n: set() for n in NUTR}
    evals = 0
    for i in range(nmax):
        for j in range(nmax):
            fr = [keys[n][i % len(keys[n])] for n in NUTR]
            to = [keys[n][j % len(keys[n])] for n in NUTR]
            it, selfobj = new_interp(index, conv)
            try:
                from .core import bind_named
                if len(fn.args.args) == 3:
                    # (from triple, to triple): the three target units handed over as one list
                    a_, k_ = bind_named(fn, [("from_units", PList(fr)), ("to_units", PList(list(to)))])
                else:
                    a_, k_ = bind_named(fn, [("from_units", PList(fr)), ("to_units_kcals", to[0]), ("to_units_fat", to[1]), ("to_units_protein", to[2])])
                res = it.call_function(fn, a_, k_, selfobj)
            except (Unsupported, Fork, MonthSplit, Abort) as e:
                raise AnalysisError(f"get_conversion outside the analysed fragment: {e!r}")
            evals += 1
            if not isinstance(res, PList) or len(res.items) != 3:
                raise AnalysisError("get_conversion no longer returns a 3-element list")
            for lane, n in enumerate(NUTR):
                pair = (fr[lane], to[lane])
                if pair in checked[n]:
                    continue
                checked[n].add(pair)
                want = tabs[n][to[lane]] / tabs[n][fr[lane]]
                got = it.to_rat(res.items[lane])
                rep.check(got == want, rule, f"{n}:{fr[lane]} -> {to[lane]}",
                          f"get_conversion does not return to/from of the {n} table in the {n} slot (nutrient lanes crossed or "
                          "wrong formula)", loc=loc(UC, fn), detail=f"got {got}, want {want}")
    # the conversion of a nutrient does not depend on whether the scenario tracks fat / protein: the same factors with the nutrients excluded
    for ex_fat, ex_prot in ((True, True), (True, False), (False, True)):
        conv2 = Obj(conv.cls, dict(conv.attrs), conv.name)
        conv2.attrs.update({"exclude_fat": ex_fat, "exclude_protein": ex_prot, "include_fat": not ex_fat, "include_protein": not ex_prot})
        bad = []
        for i in range(nmax):
            fr = [keys[n][i % len(keys[n])] for n in NUTR]
            to = [keys[n][(i + 1) % len(keys[n])] for n in NUTR]
            it, selfobj = new_interp(index, conv2)
            try:
                from .core import bind_named
                if len(fn.args.args) == 3:
                    a_, k_ = bind_named(fn, [("from_units", PList(fr)), ("to_units", PList(list(to)))])
                else:
                    a_, k_ = bind_named(fn, [("from_units", PList(fr)), ("to_units_kcals", to[0]), ("to_units_fat", to[1]), ("to_units_protein", to[2])])
                res = it.call_function(fn, a_, k_, selfobj)
            except (Unsupported, Fork, MonthSplit, Abort) as e:
                raise AnalysisError(f"get_conversion (fat/protein excluded) outside the analysed fragment: {e!r}")
            evals += 1
            for lane, n in enumerate(NUTR):
                want = tabs[n][to[lane]] / tabs[n][fr[lane]]
                got = it.to_rat(res.items[lane]) if isinstance(res, PList) and len(res.items) == 3 else None
                if got != want:
                    bad.append(f"{n}: {fr[lane]} -> {to[lane]} gives {got}")
        rep.check(not bad, rule, f"flag-independent[exclude_fat={ex_fat}, exclude_protein={ex_prot}]",
                  "with fat/protein excluded from the scenario the conversion factors differ from the tables (numbers of an excluded nutrient would be "
                  "relabelled without being converted): " + "; ".join(bad[:3]), loc=loc(UC, fn))
    rep.note_analysed("get_conversion_evaluations", evals)
    # round trip and path independence on the returned conversions (explicit, per nutrient)
    for n in NUTR:
        ks = keys[n]
        c = {(a, b): tabs[n][b] / tabs[n][a] for a in ks for b in ks}
        one = Rat.const(1)
        bad_rt = [(a, b) for a in ks for b in ks if not (c[(a, b)] * c[(b, a)] == one)]
        rep.check(not bad_rt, "C10.ROUNDTRIP", f"{n}:all {len(ks)**2} ordered pairs",
                  f"convert-and-back is not the identity for {bad_rt[:3]}", loc=UC)
        bad_pi = []
        cnt = 0
        for a, b, d in itertools.product(ks, ks, ks):
            cnt += 1
            if not (c[(a, b)] * c[(b, d)] == c[(a, d)]):
                bad_pi.append((a, b, d))
        rep.check(not bad_pi, "C10.PATH", f"{n}:all {cnt} ordered triples",
                  f"conversion through an intermediate unit differs from the direct one for {bad_pi[:3]}", loc=UC)
    rep.require_min(rule, 800)


def anchor_rules(conv, tabs, rep):
    rule = "C10.ANCHOR"
    it = Interp()
    a = conv.attrs
    need = {n: it.to_rat(a[k]) for n, k in (("kcals", "billion_kcals_needed"), ("fat", "thou_tons_fat_needed"),
                                             ("protein", "thou_tons_protein_needed"))}
    pop = sym("population")
    daily = {"kcals": sym("kcals_daily"), "fat": sym("fat_daily"), "protein": sym("protein_daily")}
    kd = sym("kcals_daily")
    for n in NUTR:
        t = tabs[n]
        for s in SUFFIXES:
            rep.check(need[n] * t["percent people fed" + s] == Rat.const(100), rule, f"{n}:requirement -> percent people fed{s}",
                      "the population's exact monthly requirement does not convert to 100 percent fed", loc=UC,
                      detail=str(need[n] * t["percent people fed" + s]))
            rep.check(need[n] * t["billion people fed" + s] == pop / Rat.const(10**9), rule,
                      f"{n}:requirement -> billion people fed{s}",
                      "the requirement does not convert to the population expressed in billions of people fed", loc=UC,
                      detail=str(need[n] * t["billion people fed" + s]))
            if n == "kcals":
                rep.check(need[n] * t["kcals per person per day" + s] == kd, rule, f"kcals:requirement -> kcals per person per day{s}",
                          "the requirement does not convert to the daily requirement per person", loc=UC,
                          detail=str(need[n] * t["kcals per person per day" + s]))
            else:
                rep.check(need[n] * t["grams per person per day" + s] == daily[n], rule,
                          f"{n}:requirement -> grams per person per day{s}",
                          "the requirement does not convert to the daily requirement per person", loc=UC)
                rep.check(need[n] * t["effective kcals per person per day" + s] == kd, rule,
                          f"{n}:requirement -> effective kcals per person per day{s}",
                          "the requirement does not convert to the daily kcal requirement in effective-kcal units", loc=UC)
    rep.require_min(rule, 30)


WRAPPERS = {
    "in_units_billions_fed": ("billion people fed",) * 3,
    "in_units_percent_fed": ("percent people fed",) * 3,
    "in_units_kcals_equivalent": ("kcals per person per day", "effective kcals per person per day",
                                  "effective kcals per person per day"),
    "in_units_kcals_grams_grams_per_person": ("kcals per person per day", "grams per person per day",
                                              "grams per person per day"),
    "in_units_bil_kcals_thou_tons_thou_tons_per_month": ("billion kcals", "thousand tons", "thousand tons"),
}


def form_rules(index, conv, tabs, rep):
    rule = "C10.FORM"
    base_from = ("billion kcals", "thousand tons", "thousand tons")
    lanes = [Rat.atom(("self", n)) for n in NUTR]
    for wname, target in WRAPPERS.items():
        fn = index.func(UC, "UnitConversions." + wname)
        for s in SUFFIXES:
            units = [b + s for b in base_from]
            it, selfobj = new_interp(index, conv, {
                "units": PList(units), "kcals_units": units[0], "fat_units": units[1], "protein_units": units[2],
                "kcals": lanes[0], "fat": lanes[1], "protein": lanes[2]})
            try:
                res = it.call_function(fn, [], {}, selfobj)
            except Abort as e:
                rep.violation(rule, f"{wname}:{s.strip() or 'total'}",
                              f"wrapper requests a unit triple that the tables do not contain (assertion would fail: {e.why})",
                              loc=loc(UC, fn))
                continue
            except (Unsupported, Fork, MonthSplit) as e:
                raise AnalysisError(f"{wname} outside the analysed fragment: {e!r}")
            if not isinstance(res, PDict):
                raise AnalysisError(f"{wname} does not end in a Food(...) construction")
            want_units = [t + s for t in target]
            got_units = [res.d.get(k) for k in ("kcals_units", "fat_units", "protein_units")]
            rep.check(got_units == want_units, rule, f"{wname}:{s.strip() or 'total'}:labels",
                      f"result labels {got_units} do not keep the total/per-month/each-month form of the operand "
                      f"(expected {want_units})", loc=loc(UC, fn))
            for lane, n in enumerate(NUTR):
                want = lanes[lane] * tabs[n][want_units[lane]] / tabs[n][units[lane]]
                got = res.d.get(n)
                ok = isinstance(got, Rat) and got == want
                rep.check(ok, rule, f"{wname}:{s.strip() or 'total'}:{n}-lane",
                          f"{n} values are not the operand's {n} values times the {n} conversion (lane crossing or missing "
                          "factor; shape is preserved because the factor is a scalar)", loc=loc(UC, fn),
                          detail=f"got {got}; want {want}")
    # in_units itself, with targets that differ per nutrient (the wrappers always ask for the same unit for fat and protein, so a
    # fat/protein mix-up inside in_units is invisible through them)
    fn = index.func(UC, "UnitConversions.in_units")
    MIXED = [("percent people fed", "billion people fed", "grams per person per day"),
             ("kcals per person per day", "effective kcals per person per day", "thousand tons"),
             ("billion people fed", "grams per person per day", "percent people fed")]
    # every unit the tables list is also tried as the operand's own unit (its form - total / each month / per month - is read off its name:
    # 'kcals per person per day' is a total)
    def bases_of(n, s):
        if s:
            return [k[:-len(s)] for k in tabs[n] if k.endswith(s)]
        return [k for k in tabs[n] if not k.endswith(" each month") and not k.endswith(" per month")]
    sources = [(base_from, t_) for t_ in MIXED]
    nmax = max(len(bases_of(n, "")) for n in NUTR)
    for i in range(nmax):
        src = tuple(bases_of(n, "")[i % len(bases_of(n, ""))] for n in NUTR)
        if src != base_from:
            sources.append((src, MIXED[i % len(MIXED)]))
    for base_src, target in sources:
        tag = "" if base_src == base_from else " from " + str(base_src)
        for s in SUFFIXES:
            units = [b + s for b in base_src]
            want_units = [t + s for t in target]
            if not all(want_units[i] in tabs[n] for i, n in enumerate(NUTR)) or not all(units[i] in tabs[n] for i, n in enumerate(NUTR)):
                continue
            it, selfobj = new_interp(index, conv, {
                "units": PList(units), "kcals_units": units[0], "fat_units": units[1], "protein_units": units[2],
                "kcals": lanes[0], "fat": lanes[1], "protein": lanes[2]})
            try:
                from .core import bind_named
                a_, k_ = bind_named(fn, list(zip(("to_units_kcals", "to_units_fat", "to_units_protein"), target)))
                res = it.call_function(fn, a_, k_, selfobj)
            except Abort as e:
                rep.violation(rule, f"in_units{target}{tag}:{s.strip() or 'total'}", f"in_units rejects a supported unit triple ({e.why})", loc=loc(UC, fn))
                continue
            except (Unsupported, Fork, MonthSplit) as e:
                raise AnalysisError(f"in_units outside the analysed fragment: {e!r}")
            if not isinstance(res, PDict):
                raise AnalysisError("in_units does not end in a Food(...) construction")
            got_units = [res.d.get(k) for k in ("kcals_units", "fat_units", "protein_units")]
            rep.check(got_units == want_units, rule, f"in_units{target}{tag}:{s.strip() or 'total'}:labels",
                      f"result labels {got_units} are not the requested units in the operand's form (expected {want_units})", loc=loc(UC, fn))
            for lane, n in enumerate(NUTR):
                want = lanes[lane] * tabs[n][want_units[lane]] / tabs[n][units[lane]]
                got = res.d.get(n)
                ok = isinstance(got, Rat) and got == want
                rep.check(ok, rule, f"in_units{target}{tag}:{s.strip() or 'total'}:{n}-lane",
                          f"{n} values are not the operand's {n} values times the {n} conversion to the unit requested for {n} (units of two "
                          "nutrients swapped, or a missing factor)", loc=loc(UC, fn), detail=f"got {got}; want {want}")
    rep.require_min(rule, 70)


def pure(index, rep):
    """the multiplier tables and conversions are functions of the current requirement settings only: the table builders,
    get_conversion and in_units store nothing on the (process-wide) conversions object or on self, and set_nutrition_requirements
    is the only place the settings are written (C14.RESET shows it re-establishes all of them)"""
    rule = "C10.PURE"
    uc = index.methods(UC, "UnitConversions")
    names = [m for m in uc if m.startswith(("get_kcal_multipliers", "get_fat_multipliers", "get_protein_multipliers", "get_unit_multipliers",
                                             "get_conversion", "in_units"))]
    if len(names) < 9:
        raise AnalysisError(f"only {len(names)} conversion methods found")
    for name in sorted(names):
        fnn = uc[name]
        aliases = {"self"}
        for st in walk_no_nested(fnn):
            if isinstance(st, ast.Assign) and len(st.targets) == 1 and isinstance(st.targets[0], ast.Name):
                v = norm_src(st.value)
                if v.endswith("get_conversions()") or v.endswith(".conversions"):
                    aliases.add(st.targets[0].id)
        bad = []
        for st in walk_no_nested(fnn):
            if isinstance(st, (ast.Assign, ast.AugAssign, ast.Delete)):
                for t in (st.targets if not isinstance(st, ast.AugAssign) else [st.target]):
                    base = t
                    while isinstance(base, (ast.Subscript, ast.Attribute)):
                        if isinstance(base, ast.Attribute) and isinstance(base.value, ast.Name) and base.value.id in aliases:
                            bad.append(f"store {norm_src(t)[:50]} (line {st.lineno})")
                            break
                        if isinstance(base, ast.Attribute) and norm_src(base.value).endswith(("get_conversions()", ".conversions")):
                            bad.append(f"store {norm_src(t)[:50]} (line {st.lineno})")
                            break
                        base = base.value
            if isinstance(st, ast.Call) and dotted(st.func) == "setattr":
                bad.append(f"setattr (line {st.lineno})")
            if isinstance(st, ast.Call) and isinstance(st.func, ast.Attribute) and st.func.attr in ("update", "setdefault", "append", "pop", "clear") \
                    and isinstance(st.func.value, ast.Attribute) and isinstance(st.func.value.value, ast.Name) and st.func.value.value.id in aliases:
                bad.append(f"call {norm_src(st.func)[:50]}() (line {st.lineno})")
        decs = [norm_src(d) for d in fnn.decorator_list if "cache" in norm_src(d).lower() or "memo" in norm_src(d).lower()]
        rep.check(not bad and not decs, rule, f"UnitConversions.{name}: no stored state",
                  "a conversion routine keeps state (" + "; ".join(bad[:3] + decs) + "): a multiplier computed under one requirement setting can be "
                  "served under another", loc=loc(UC, fnn))
    rep.require_min(rule, 9)


def describe(rep):
    rep.explanation = (
        "Proof by exact symbolic evaluation. set_nutrition_requirements and the three get_*_multipliers functions are "
        "abstractly evaluated into rational functions of (kcals_daily, fat_daily, protein_daily, population); "
        "get_conversion is evaluated for every ordered pair of table keys and in_units / the five in_units_* wrappers for "
        "each of the three label forms. Obligations: forms-present/equal (C10.TABLE), conversion = to/from in the right "
        "nutrient lane (C10.CONV), round trip (C10.ROUNDTRIP) and path independence (C10.PATH) for all pairs/triples, "
        "anchor identities (C10.ANCHOR), label-form and lane preservation (C10.FORM). Each is a polynomial identity "
        "decided by cross-multiplication, so it holds for all parameter values."
    )
    rep.assumptions = ["real arithmetic (floating-point rounding of the running code not modelled)",
                       "population and daily requirements non-zero"]
