"""C13 — scenario options mean what they say and are applied exactly once.

  C13.ONCE      exactly-once typestate of the 60 setters (assert-not-set ... set) and flag set agreement
  C13.DISPATCH  dispatcher exhaustiveness: presence asserted, one setter per arm, family agreement, rejecting else
  C13.DOC       every documented value is accepted (or documented as unsupported)
  C13.EFFECT    sibling setters write the same keys; numbers stated in the documentation are the numbers written
  C13.NOMUT     the caller's option dictionary is not modified
  C13.OVERRIDE  numeric overrides change exactly the input they name (key round trip over all species)
  C13.KEYS      no option combination reaches an undefined constant (reader/writer agreement); shipped presets well-formed
"""
from __future__ import annotations

import ast
import csv
import os
import re

from .core import AnalysisError, loc, norm_src, walk_no_nested, dotted, str_const

SCEN = "src/scenarios/scenarios.py"
RUN = "src/scenarios/run_scenario.py"
ANIM = "src/food_system/animal_populations.py"
PARAMS = "src/optimizer/parameters.py"
README = "scenarios/README.md"
HEADCSV = "data/no_food_trade/animal_feed_data/FAOSTAT_head_and_slaughter.csv"

DICTS = ("constants_for_params", "time_consts", "time_consts_for_params")

NON_SETTERS = {"__init__", "check_all_set", "get_global_distribution_waste", "get_distribution_waste"}


def _rename(fn, old, new):
    if old == new or old is None:
        return
    for n in ast.walk(fn):
        if isinstance(n, ast.Name) and n.id == old:
            n.id = new
        elif isinstance(n, ast.arg) and n.arg == old:
            n.arg = new


def _assigned_from(fn, pred):
    """names assigned (anywhere in fn) from a value satisfying pred"""
    out = []
    for st in walk_no_nested(fn):
        if isinstance(st, ast.Assign) and len(st.targets) == 1 and isinstance(st.targets[0], ast.Name) and pred(st.value):
            if st.targets[0].id not in out:
                out.append(st.targets[0].id)
    return out


def canonicalise(index):
    """The rules below name a handful of locals of the option dispatcher and of the Scenarios setters.  What those locals ARE is
    structural (the Scenarios() object, the working copy of the options, the validity flag, the constants dictionary that is
    threaded through the setters and returned, ...), so each is located by that role and renamed - in this run's in-memory syntax
    trees only - to the name the rules use.  A maintainer's rename of such a local therefore changes nothing for the rules."""
    fn = index.func(RUN, "ScenarioRunner.set_depending_on_option")
    alt = index.func(RUN, "ScenarioRunner.alter_scenario_if_known_to_fail")
    # the options parameter of both routines is the parameter they deep-copy (wherever it stands, whatever it is called)
    for f_ in (fn, alt):
        ps_ = [a.arg for a in f_.args.args if a.arg != "self"]
        copied = [p_ for p_ in ps_ if any(isinstance(c_, ast.Call) and dotted(c_.func) == "copy.deepcopy" and c_.args and norm_src(c_.args[0]) == p_
                                          for c_ in ast.walk(f_))]
        if len(copied) == 1 and copied[0] != "scenario_option" and "scenario_option" not in ps_:
            _rename(f_, copied[0], "scenario_option")
            for a_ in f_.args.args:
                if a_.arg == copied[0]:
                    a_.arg = "scenario_option"
    ps_ = [a.arg for a in fn.args.args if a.arg != "self"]
    opt_param = "scenario_option" if "scenario_option" in ps_ else ps_[0]
    loader = _assigned_from(fn, lambda v: isinstance(v, ast.Call) and dotted(v.func) == "Scenarios")
    copyv = _assigned_from(fn, lambda v: isinstance(v, ast.Call) and ((isinstance(v.func, ast.Attribute) and v.func.attr == "alter_scenario_if_known_to_fail")
                                                                         or (dotted(v.func) == "copy.deepcopy" and v.args and norm_src(v.args[0]) == opt_param)))
    trues = _assigned_from(fn, lambda v: isinstance(v, ast.Constant) and v.value is True)
    falses = _assigned_from(fn, lambda v: isinstance(v, ast.Constant) and v.value is False)
    asserted = {norm_src(a.test) for a in walk_no_nested(fn) if isinstance(a, ast.Assert)}
    flag = [n for n in trues if n in falses and n in asserted]
    if len(loader) == 1:
        _rename(fn, loader[0], "scenario_loader")
    if len(copyv) == 1:
        _rename(fn, copyv[0], "scenario_option_copy")
    if len(flag) == 1:
        _rename(fn, flag[0], "scenario_is_correct")
    consts = _assigned_from(fn, lambda v: isinstance(v, ast.Call) and isinstance(v.func, ast.Attribute) and dotted(v.func.value) == "scenario_loader"
                            and v.func.attr.startswith("init_"))
    if len(consts) == 1:
        _rename(fn, consts[0], "constants_for_params")
    mult = _assigned_from(fn, lambda v: isinstance(v, ast.Call) and dotted(v.func) == "float" and v.args and "MULTIPLIER" in norm_src(v.args[0]))
    if len(mult) == 1:
        _rename(fn, mult[0], "multiplier")
    tbl = _assigned_from(alt, lambda v: isinstance(v, ast.List) and v.elts and all(isinstance(e, ast.Dict) for e in v.elts))
    if len(tbl) == 1:
        _rename(alt, tbl[0], "failing_scenarios")
    # Scenarios methods: the dictionary that is returned is `constants_for_params`
    for m in index.methods(SCEN, "Scenarios").values():
        rets = {norm_src(r.value) for r in walk_no_nested(m) if isinstance(r, ast.Return) and isinstance(r.value, ast.Name)}
        if len(rets) == 1:
            name = rets.pop()
            subs = [n for n in ast.walk(m) if isinstance(n, ast.Subscript) and isinstance(n.value, ast.Name) and n.value.id == name]
            if subs and name != "constants_for_params" and not any(isinstance(n, ast.Name) and n.id == "constants_for_params" for n in ast.walk(m)):
                _rename(m, name, "constants_for_params")


def run(index, rep):
    canonicalise(index)
    setters = analyse_setters(index, rep)
    disp = dispatch(index, rep, setters)
    rep.guard(doc, index, rep, disp)
    rep.guard(effect, index, rep, setters, disp)
    rep.guard(nomut, index, rep)
    rep.guard(kept_iterators, index, rep)
    rep.guard(override, index, rep)
    rep.guard(keys, index, rep, setters, disp)
    rep.guard(data_setters, index, rep)


# ------------------------------------------------------------------------------------------ C13.DATA

# country-specific nuclear-winter options: the yearly production ratio is 1 + the country row's yearly change (README: "based on
# country-specific nuclear winter estimates"), year by year - nothing capped, scaled or shifted
DATA_SETTERS = (
    ("set_nuclear_winter_country_disruption_to_crops", "RATIO_CROPS_YEAR", "crop_reduction_year", 11),
    ("set_country_grasses_nuclear_winter", "RATIO_GRASSES_YEAR", "grasses_reduction_year", 10),
)


def data_setters(index, rep):
    from .symx import Interp, Obj, Path, PDict, Unsupported, explore, Abort
    from .rat import Rat, K
    rule = "C13.DATA"
    cls = index.cls(SCEN, "Scenarios")
    for name, prefix, column, last in DATA_SETTERS:
        fn = index.func(SCEN, "Scenarios." + name)
        init = index.func(SCEN, "Scenarios.__init__")
        flags = {dotted(st.targets[0])[5:]: False for st in init.body if isinstance(st, ast.Assign) and (dotted(st.targets[0]) or "").endswith("_SET")}

        def runit(it, fn=fn):
            it.classes = {"Scenarios": cls}
            it.opaque_calls = True

            def hook(interp, d, a, kw, node):
                if d in ("float", "np.float64") and len(a) == 1:
                    return a[0]
                return NotImplemented

            it.call_hook = hook
            attrs = dict(flags)
            attrs.update({"IS_GLOBAL_ANALYSIS": False, "scenario_description": ""})
            obj = Obj(cls, attrs, "self")
            cfp = PDict({})
            from .core import bind_named
            a_, k_ = bind_named(fn, [("constants_for_params", cfp), ("country_data", Path(("row",)))])
            it.call_function(fn, a_, k_, obj)
            return cfp

        try:
            leaves = [x for x in explore(runit, month_classes=False) if not isinstance(x[2], Abort)]
        except Unsupported as e:
            raise AnalysisError(f"Scenarios.{name} outside the analysed fragment: {e}")
        if not leaves:
            raise AnalysisError(f"Scenarios.{name}: no completing path")
        for _, dec, cfp, it in leaves:
            for k in range(1, last + 1):
                got = cfp.d.get(f"{prefix}{k}")
                src_year = min(k, 10)   # the table has ten years; year 11 repeats year 10
                want = Rat.const(1) + it.to_rat(Path(("row", f"{column}{src_year}")))
                try:
                    ok = got is not None and it.to_rat(got) == want
                except Unsupported:
                    ok = False
                rep.check(ok, rule, f"{name}:{prefix}{k} = 1 + row[{column}{src_year}]",
                          f"{prefix}{k} is set to {got}, not 1 + the country row's {column}{src_year}: the option does not apply the country's "
                          "own estimate for that year unchanged", loc=loc(SCEN, fn))
    # the in-country waste options: every distribution-loss entry and the retail waste are a fraction of the country row turned into a
    # percentage (x 100) - an entry left as the raw fraction is a hundred times too small
    WASTE_COLUMNS = {"SUGAR": "distribution_loss_sugar", "CROPS": "distribution_loss_crops", "MEAT": "distribution_loss_meat",
                     "MILK": "distribution_loss_dairy", "SEAFOOD": "distribution_loss_seafood", "SEAWEED": "distribution_loss_seafood"}
    for name, retail in (("set_country_waste_to_tripled_prices", "retail_waste_price_triple"), ("set_country_waste_to_doubled_prices", "retail_waste_price_double"),
                         ("set_country_waste_to_baseline_prices", "retail_waste_baseline")):
        fn = index.func(SCEN, "Scenarios." + name)
        init = index.func(SCEN, "Scenarios.__init__")
        flags = {dotted(st.targets[0])[5:]: False for st in init.body if isinstance(st, ast.Assign) and (dotted(st.targets[0]) or "").endswith("_SET")}
        if not flags:
            flags = {"WASTE_SET": False}

        def runit(it, fn=fn):
            it.classes = {"Scenarios": cls}
            it.opaque_calls = True
            attrs = dict(flags)
            attrs.update({"IS_GLOBAL_ANALYSIS": False, "scenario_description": ""})
            obj = Obj(cls, attrs, "self")
            cfp = PDict({})
            from .core import bind_named
            a_, k_ = bind_named(fn, [("constants_for_params", cfp), ("country_data", Path(("row",)))])
            it.call_function(fn, a_, k_, obj)
            return cfp

        try:
            leaves = [x for x in explore(runit, month_classes=False) if not isinstance(x[2], Abort)]
        except Unsupported as e:
            raise AnalysisError(f"Scenarios.{name} outside the analysed fragment: {e}")
        if not leaves:
            raise AnalysisError(f"Scenarios.{name}: no completing path")
        for _, dec, cfp, it in leaves:
            wd = cfp.d.get("WASTE_DISTRIBUTION")
            for food, col in WASTE_COLUMNS.items():
                got = wd.d.get(food) if isinstance(wd, PDict) else None
                want = Rat.const(100) * it.to_rat(Path(("row", col)))
                try:
                    ok = got is not None and it.to_rat(got) == want
                except Unsupported:
                    ok = False
                rep.check(ok, rule, f"{name}:WASTE_DISTRIBUTION.{food} = 100 x row[{col}]",
                          f"the distribution loss of {food} is set to {got}, not 100 x the country row's {col} (a percentage): the option does not "
                          "apply the country's own estimate", loc=loc(SCEN, fn))
            got_r = cfp.d.get("WASTE_RETAIL")
            try:
                cols_r = {a_.path[1] for a_ in it.to_rat(got_r).atoms() if isinstance(a_, K) and len(a_.path) == 2 and a_.path[0] == "row"} if got_r is not None else set()
                ok_r = len(cols_r) == 1 and it.to_rat(got_r) == Rat.const(100) * it.to_rat(Path(("row", next(iter(cols_r)))))
            except Unsupported:
                ok_r = False
            rep.check(ok_r, rule, f"{name}:WASTE_RETAIL = 100 x one retail column of the row",
                      f"the retail waste is set to {got_r}, not 100 x a retail-waste column of the country row", loc=loc(SCEN, fn))
    rep.require_min(rule, 21 + 21)


# ------------------------------------------------------------------------------------------ key collection


def key_chain(node):
    """constants_for_params["A"]["B"] -> ("constants_for_params", ["A","B"]) (None if not literal)"""
    ks = []
    while isinstance(node, ast.Subscript):
        k = node.slice
        if isinstance(k, ast.Constant) and isinstance(k.value, str):
            ks.append(k.value)
        elif isinstance(k, ast.JoinedStr) or isinstance(k, ast.BinOp):
            ks.append("<" + norm_src(k) + ">")
        else:
            ks.append("<" + norm_src(k) + ">")
        node = node.value
    if isinstance(node, ast.Name):
        return node.id, list(reversed(ks))
    return None, None


def _fold_str(e):
    """the string a key expression spells when it is built from literals only: 'A' + str(3), f"A{3}", 'A{}'.format(3), 'A%d' % 3"""
    if isinstance(e, ast.Constant) and isinstance(e.value, (str, int)) and not isinstance(e.value, bool):
        return e.value
    if isinstance(e, ast.BinOp) and isinstance(e.op, ast.Add):
        a, b = _fold_str(e.left), _fold_str(e.right)
        if isinstance(a, str) and isinstance(b, str):
            return a + b
        if isinstance(a, int) and isinstance(b, int):
            return a + b
        return None
    if isinstance(e, ast.BinOp) and isinstance(e.op, ast.Sub):
        a, b = _fold_str(e.left), _fold_str(e.right)
        return a - b if isinstance(a, int) and isinstance(b, int) else None
    if isinstance(e, ast.Call) and isinstance(e.func, ast.Name) and e.func.id == "str" and len(e.args) == 1 and not e.keywords:
        v = _fold_str(e.args[0])
        return str(v) if v is not None else None
    if isinstance(e, ast.JoinedStr):
        parts = []
        for v in e.values:
            if isinstance(v, ast.Constant):
                parts.append(str(v.value))
            elif isinstance(v, ast.FormattedValue) and v.format_spec is None and v.conversion in (-1, 115):
                x = _fold_str(v.value)
                if x is None:
                    return None
                parts.append(str(x))
            else:
                return None
        return "".join(parts)
    return None


def _fold_target(t, view):
    """the store target with every key that is spelled from literals (directly, or through what the caller hands over for a helper's
    parameter) written as that literal"""
    if not any(not isinstance(n_.slice, ast.Constant) for n_ in ast.walk(t) if isinstance(n_, ast.Subscript)):
        return t
    import copy as _copy
    from .core import _strip_parents
    t2 = _copy.deepcopy(_strip_parents(t)) if False else None
    node, chain = t, []
    while isinstance(node, ast.Subscript):
        chain.append(node)
        node = node.value
    out = node
    for sub in reversed(chain):
        k = sub.slice
        if not isinstance(k, ast.Constant):
            try:
                v = _fold_str(view.expr(k))
            except Exception:
                v = None
            if isinstance(v, str):
                k = ast.Constant(value=v)
        out = ast.Subscript(value=out, slice=k, ctx=ast.Store())
    return out


def _range_values(forst):
    """for i in range(a, b) with literal bounds -> list of ints, else None"""
    it = forst.iter
    if isinstance(it, ast.Call) and dotted(it.func) == "range" and all(isinstance(a, ast.Constant) and isinstance(a.value, int) for a in it.args):
        return list(range(*[a.value for a in it.args]))
    if isinstance(it, (ast.Tuple, ast.List)) and it.elts and all(isinstance(a, ast.Constant) and isinstance(a.value, int) for a in it.elts):
        return [a.value for a in it.elts]
    return None


def _expand_key(k, st, fn):
    """'<'PREFIX' + str(i)>' inside `for i in range(1, 11)` -> the concrete keys"""
    m = re.fullmatch(r"<'([^']*)' \+ str\((\w+)\)>", k)
    if not m:
        return [k]
    prefix, var = m.group(1), m.group(2)
    n = getattr(st, "_parent", None)
    while n is not None and n is not fn:
        if isinstance(n, ast.For) and isinstance(n.target, ast.Name) and n.target.id == var:
            vals = _range_values(n)
            if vals is not None:
                return [prefix + str(v) for v in vals]
        n = getattr(n, "_parent", None)
    return [k]


def _literal_seq(node, fn):
    """elements of a literal tuple/list, written in place or bound once to a local of `fn`"""
    if isinstance(node, (ast.Tuple, ast.List)):
        return list(node.elts)
    if isinstance(node, ast.Name):
        defs = [st for st in walk_no_nested(fn) if isinstance(st, ast.Assign) and any(isinstance(t, ast.Name) and t.id == node.id for t in st.targets)]
        if len(defs) == 1:
            return _literal_seq(defs[0].value, fn)
        if not defs:
            # a table of the module
            mod = fn
            while getattr(mod, "_parent", None) is not None:
                mod = mod._parent
            tops = [st for st in getattr(mod, "body", []) if isinstance(st, ast.Assign) and any(isinstance(t, ast.Name) and t.id == node.id for t in st.targets)]
            if len(tops) == 1 and isinstance(tops[0].value, (ast.Tuple, ast.List)):
                return list(tops[0].value.elts)
    if isinstance(node, ast.Attribute) and isinstance(node.value, ast.Name):
        # a table of the class: self.X / cls.X / <Class>.X
        cls_ = getattr(fn, "_parent", None)
        if isinstance(cls_, ast.ClassDef) and node.value.id in ("self", "cls", cls_.name):
            tops = [st for st in cls_.body if isinstance(st, ast.Assign) and any(isinstance(t, ast.Name) and t.id == node.attr for t in st.targets)]
            stores = [n_ for n_ in ast.walk(cls_) if isinstance(n_, ast.Attribute) and n_.attr == node.attr and isinstance(n_.ctx, (ast.Store, ast.Del))]
            if len(tops) == 1 and not stores and isinstance(tops[0].value, (ast.Tuple, ast.List)):
                return list(tops[0].value.elts)
    return None


def _dict_subkeys(value, fn, methods):
    """sub-keys of a dict-valued right-hand side: a dict literal, or a local bound to self.<getter>() whose return
    value is a local dict filled by literal subscript stores"""
    if isinstance(value, ast.Dict):
        return [k.value for k in value.keys if isinstance(k, ast.Constant) and isinstance(k.value, str)]
    if isinstance(value, ast.DictComp) and len(value.generators) == 1 and not value.generators[0].ifs:
        # {key: ... for key, other in <literal table>}: the keys the table lists
        g_ = value.generators[0]
        table = _literal_seq(g_.iter, fn)
        if table is None:
            # ... or over the items / keys of a dict literal bound to a local (or a table of the module)
            it_ = g_.iter
            mode_ = None
            if isinstance(it_, ast.Call) and isinstance(it_.func, ast.Attribute) and it_.func.attr in ("items", "keys") and not it_.args and isinstance(it_.func.value, ast.Name):
                it_, mode_ = it_.func.value, it_.func.attr
            elif isinstance(it_, ast.Name):
                mode_ = "keys"
            if mode_ and isinstance(it_, ast.Name):
                defs_ = [st.value for st in walk_no_nested(fn) if isinstance(st, ast.Assign) and any(isinstance(t, ast.Name) and t.id == it_.id for t in st.targets)]
                if not defs_:
                    mod_ = fn
                    while getattr(mod_, "_parent", None) is not None:
                        mod_ = mod_._parent
                    defs_ = [st.value for st in getattr(mod_, "body", []) if isinstance(st, ast.Assign) and any(isinstance(t, ast.Name) and t.id == it_.id for t in st.targets)]
                if len(defs_) == 1 and isinstance(defs_[0], ast.Dict) and all(k_ is not None for k_ in defs_[0].keys):
                    table = [ast.Tuple(elts=[k_, v_], ctx=ast.Load()) for k_, v_ in zip(defs_[0].keys, defs_[0].values)] if mode_ == "items" else list(defs_[0].keys)
        ks = []
        for row in table or []:
            bind = {}
            if isinstance(g_.target, ast.Name):
                bind[g_.target.id] = row
            elif isinstance(g_.target, ast.Tuple) and isinstance(row, (ast.Tuple, ast.List)) and len(row.elts) == len(g_.target.elts):
                bind = {t_.id: r_ for t_, r_ in zip(g_.target.elts, row.elts) if isinstance(t_, ast.Name)}
            k_ = bind.get(value.key.id) if isinstance(value.key, ast.Name) else value.key
            if isinstance(k_, ast.Constant) and isinstance(k_.value, str):
                ks.append(k_.value)
        return ks
    if isinstance(value, ast.Name):
        for st in walk_no_nested(fn):
            if isinstance(st, ast.Assign) and isinstance(st.targets[0], ast.Name) and st.targets[0].id == value.id:
                return _dict_subkeys(st.value, fn, methods)
    if isinstance(value, ast.Call):
        d = dotted(value.func)
        if d and d.startswith("self.") and d[5:] in methods:
            g = methods[d[5:]]
            rets = [r for r in walk_no_nested(g) if isinstance(r, ast.Return) and isinstance(r.value, ast.Name)]
            direct = [r for r in walk_no_nested(g) if isinstance(r, ast.Return) and isinstance(r.value, (ast.Dict, ast.DictComp))]
            if direct and not rets:
                return _dict_subkeys(direct[-1].value, g, methods)
            if rets:
                name = rets[-1].value.id
                ks = []
                for st in walk_no_nested(g):
                    if isinstance(st, ast.Assign) and isinstance(st.targets[0], ast.Name) and st.targets[0].id == name \
                            and isinstance(st.value, (ast.Dict, ast.DictComp)):
                        ks.extend(_dict_subkeys(st.value, g, methods))
                for st in walk_no_nested(g):
                    if isinstance(st, ast.Assign) and isinstance(st.targets[0], ast.Subscript):
                        base, kk = key_chain(st.targets[0])
                        if base == name and kk and len(kk) == 1:
                            ks.append(kk[0])
                return ks
    return []


def _fold_none_tests(e):
    """`A if <literal> is None else B` -> A or B (what a helper parameter bound to a literal argument selects)"""
    class T(ast.NodeTransformer):
        def visit_IfExp(self, n):
            n = self.generic_visit(n)
            t = n.test
            if isinstance(t, ast.Compare) and len(t.ops) == 1 and isinstance(t.left, ast.Constant) and isinstance(t.comparators[0], ast.Constant) \
                    and t.comparators[0].value is None and isinstance(t.ops[0], (ast.Is, ast.IsNot, ast.Eq, ast.NotEq)):
                is_none = t.left.value is None
                truth = is_none if isinstance(t.ops[0], (ast.Is, ast.Eq)) else not is_none
                return n.body if truth else n.orelse
            return n
    return T().visit(e)


def _unroll_table_loops(fn, view):
    """`for key, value in <table>: ...` / `for f in <tuple of functions>: ...` where the table is a literal - written in place, bound once
    in the method, or (through `view`) the literal argument a caller passes for a parameter: the loop is replaced by its body once per row,
    the loop variables replaced by the row's entries.  Returns `fn` itself when there is nothing to unroll."""
    import copy
    from .core import _strip_parents

    def literal_rows(it, depth=0):
        """the rows a loop header runs over, when the source says so: a literal sequence (in place, a local, a table of the module, or what a
        caller hands over), `[x] * n`, range(...) with literal bounds, enumerate / zip of such, a comprehension or generator over such"""
        e = it
        if depth > 6:
            return None
        if isinstance(e, ast.Name):
            defs = [s_ for s_ in walk_no_nested(fn) if isinstance(s_, ast.Assign) and any(isinstance(t, ast.Name) and t.id == e.id for t in s_.targets)]
            if len(defs) == 1:
                return literal_rows(defs[0].value, depth + 1)
            if defs:
                return None
            try:
                e2 = view.expr(e)
            except Exception:
                return None
            if not (isinstance(e2, ast.Name) and e2.id == e.id):
                return literal_rows(e2, depth + 1)
            tops = _literal_seq(e, fn)
            return list(tops) if tops and len(tops) <= 40 else None
        if isinstance(e, (ast.Tuple, ast.List)) and 0 < len(e.elts) <= 40 and not any(isinstance(x, ast.Starred) for x in e.elts):
            return list(e.elts)
        if isinstance(e, ast.BinOp) and isinstance(e.op, ast.Mult):
            seq, k = (e.left, e.right) if isinstance(e.left, (ast.List, ast.Tuple)) else (e.right, e.left)
            if isinstance(seq, (ast.List, ast.Tuple)) and isinstance(k, ast.Constant) and isinstance(k.value, int) and 0 < k.value * len(seq.elts) <= 40:
                return list(seq.elts) * k.value
            return None
        if isinstance(e, ast.Call) and isinstance(e.func, ast.Name):
            if e.func.id == "range" and not e.keywords and all(isinstance(a, ast.Constant) and isinstance(a.value, int) for a in e.args) and 1 <= len(e.args) <= 3:
                vals = list(range(*[a.value for a in e.args]))
                return [ast.Constant(value=v) for v in vals] if 0 < len(vals) <= 40 else None
            if e.func.id == "enumerate" and len(e.args) in (1, 2) and all(k.arg == "start" for k in e.keywords):
                start = e.args[1] if len(e.args) == 2 else (e.keywords[0].value if e.keywords else ast.Constant(value=0))
                rows = literal_rows(e.args[0], depth + 1)
                if rows is None or not (isinstance(start, ast.Constant) and isinstance(start.value, int)):
                    return None
                return [ast.Tuple(elts=[ast.Constant(value=start.value + i), r], ctx=ast.Load()) for i, r in enumerate(rows)]
            if e.func.id == "zip" and e.args and not e.keywords:
                cols = [literal_rows(a, depth + 1) for a in e.args]
                if any(c is None for c in cols):
                    return None
                return [ast.Tuple(elts=list(r), ctx=ast.Load()) for r in zip(*cols)]
            if e.func.id in ("list", "tuple") and len(e.args) == 1 and not e.keywords:
                return literal_rows(e.args[0], depth + 1)
            return None
        if isinstance(e, (ast.GeneratorExp, ast.ListComp)) and len(e.generators) == 1 and not e.generators[0].ifs:
            g_ = e.generators[0]
            rows = literal_rows(g_.iter, depth + 1)
            if rows is None:
                return None
            out_rows = []
            for r in rows:
                if isinstance(g_.target, ast.Name):
                    m = {g_.target.id: r}
                elif isinstance(g_.target, ast.Tuple) and isinstance(r, (ast.Tuple, ast.List)) and len(r.elts) == len(g_.target.elts) \
                        and all(isinstance(x, ast.Name) for x in g_.target.elts):
                    m = {t_.id: v_ for t_, v_ in zip(g_.target.elts, r.elts)}
                else:
                    return None

                class _S(ast.NodeTransformer):
                    def visit_Name(self, n):
                        if n.id in m and isinstance(n.ctx, ast.Load):
                            return copy.deepcopy(m[n.id])
                        return n
                out_rows.append(_S().visit(copy.deepcopy(e.elt)))
            return out_rows
        return None

    todo = []
    for st in walk_no_nested(fn):
        if isinstance(st, ast.For) and not st.orelse and not any(isinstance(x, (ast.Break, ast.Continue)) for x in ast.walk(st)):
            rows = literal_rows(st.iter)
            if rows is None:
                continue
            tg = st.target
            names = [tg.id] if isinstance(tg, ast.Name) else ([x.id for x in tg.elts] if isinstance(tg, ast.Tuple) and all(isinstance(x, ast.Name) for x in tg.elts) else None)
            if names is None or any(isinstance(x, ast.Name) and isinstance(x.ctx, ast.Store) and x.id in names for b in st.body for x in ast.walk(b)):
                continue
            if isinstance(tg, ast.Tuple) and not all(isinstance(r, (ast.Tuple, ast.List)) and len(r.elts) == len(names) for r in rows):
                continue
            todo.append((st, names, rows))
    if not todo:
        return fn
    new = copy.copy(fn)
    new.body = [_strip_parents(s_) for s_ in fn.body]
    # re-locate the loops in the copy by position (same traversal order)
    orig_loops = [st for st in walk_no_nested(fn) if isinstance(st, ast.For)]
    copy_loops = [st for st in walk_no_nested(new) if isinstance(st, ast.For)]
    plan = {id(copy_loops[orig_loops.index(st)]): (names, rows) for st, names, rows in todo}

    class Sub(ast.NodeTransformer):
        def __init__(self, m):
            self.m = m

        def visit_Name(self, n):
            if n.id in self.m and isinstance(n.ctx, ast.Load):
                return _strip_parents(self.m[n.id])
            return n

    def rewrite(stmts):
        out = []
        for s_ in stmts:
            for f in ("body", "orelse", "finalbody"):
                b = getattr(s_, f, None)
                if isinstance(b, list) and b and isinstance(b[0], ast.stmt):
                    setattr(s_, f, rewrite(b))
            if id(s_) in plan:
                names, rows = plan[id(s_)]
                for r in rows:
                    m = dict(zip(names, r.elts)) if len(names) > 1 or isinstance(s_.target, ast.Tuple) else {names[0]: r}
                    for b in s_.body:
                        c = Sub(m).visit(copy.deepcopy(b))
                        ast.copy_location(c, s_)
                        out.append(c)
            else:
                out.append(s_)
        return out

    new.body = rewrite(new.body)
    ast.fix_missing_locations(new)
    for node in ast.walk(new):
        for ch in ast.iter_child_nodes(node):
            ch._parent = node
    return new


def written_keys(fn, methods, seen=None, view=None):
    """literal keys a Scenarios method writes into its dict parameters (helpers inlined).  key -> [(statement, conditional?, value)]
    where value is the stored expression as the outermost method sees it: a helper's parameters stand for the caller's arguments"""
    from .core import HelperView, Inliner
    seen = seen or set()
    out = {}
    if fn.name in seen:
        return out
    seen = seen | {fn.name}
    if view is None:
        class _Ident:
            def expr(self, e):
                from .core import _strip_parents
                return _strip_parents(e)
        view = _Ident()
    fn = _unroll_table_loops(fn, view)
    for st in walk_no_nested(fn):
        tgts = []
        if isinstance(st, ast.Assign):
            tgts = st.targets
        elif isinstance(st, ast.AugAssign):
            tgts = [st.target]
        for t in tgts:
            if isinstance(t, ast.Subscript):
                base, ks = key_chain(_fold_target(t, view))
                if base in DICTS and ks:
                    cond = _conditional(st, fn)
                    expanded = _expand_key(ks[-1], st, fn)
                    if expanded != [ks[-1]]:
                        cond = False  # a literal range loop always runs
                    for last in expanded:
                        full = ".".join(ks[:-1] + [last])
                        val = _fold_none_tests(view.expr(st.value)) if isinstance(st, ast.Assign) else None
                        out.setdefault(full, []).append((st, cond, val))
                        if isinstance(st, ast.Assign):
                            for sub in _dict_subkeys(st.value, fn, methods):
                                out.setdefault(full + "." + sub, []).append((st, cond, None))
        if isinstance(st, ast.Call):
            d = dotted(st.func)
            if d and d.startswith("self.") and d[5:] in methods and d[5:] not in NON_SETTERS:
                for k, v in written_keys(methods[d[5:]], methods, seen, HelperView(view, st, methods[d[5:]])).items():
                    out.setdefault(k, []).extend(v)
            # <dict>.update({"K": v, ...}) / <dict>.update(K=v): one store per key
            if isinstance(st.func, ast.Attribute) and st.func.attr == "update":
                probe = ast.Subscript(value=st.func.value, slice=ast.Constant(value="?"), ctx=ast.Store())
                base, ks = key_chain(probe)
                if base in DICTS and ks:
                    pairs = []
                    if len(st.args) == 1 and isinstance(st.args[0], ast.Dict):
                        pairs += [(k_.value, v_) for k_, v_ in zip(st.args[0].keys, st.args[0].values)
                                  if isinstance(k_, ast.Constant) and isinstance(k_.value, str)]
                    pairs += [(k_.arg, k_.value) for k_ in st.keywords if k_.arg]
                    cond = _conditional(st, fn)
                    for k_, v_ in pairs:
                        full = ".".join(ks[:-1] + [k_])
                        out.setdefault(full, []).append((st, cond, _fold_none_tests(view.expr(v_))))
                        for sub in _dict_subkeys(v_, fn, methods):
                            out.setdefault(full + "." + sub, []).append((st, cond, None))
    return out


def _conditional(st, fn):
    n = getattr(st, "_parent", None)
    while n is not None and n is not fn:
        if isinstance(n, (ast.If, ast.For, ast.While, ast.Try)):
            return True
        n = getattr(n, "_parent", None)
    return False


# ------------------------------------------------------------------------------------------ C13.ONCE


def flag_of_assert(st):
    if isinstance(st, ast.Assert) and isinstance(st.test, ast.UnaryOp) and isinstance(st.test.op, ast.Not):
        d = dotted(st.test.operand)
        if d and d.startswith("self.") and d.endswith("_SET"):
            return d[5:]
    return None


def flag_of_set(st):
    if isinstance(st, ast.Assign) and len(st.targets) == 1:
        d = dotted(st.targets[0])
        if d and d.startswith("self.") and d.endswith("_SET") and isinstance(st.value, ast.Constant) and st.value.value is True:
            return d[5:]
    return None


def analyse_setters(index, rep):
    rule = "C13.ONCE"
    methods = index.methods(SCEN, "Scenarios")
    init = methods.get("__init__")
    check = methods.get("check_all_set")
    if init is None or check is None:
        raise AnalysisError("Scenarios.__init__/check_all_set missing")
    init_flags = set()
    for st in init.body:
        if isinstance(st, ast.Assign):
            d = dotted(st.targets[0])
            if d and d.endswith("_SET"):
                ok = isinstance(st.value, ast.Constant) and st.value.value is False
                rep.check(ok, rule, f"__init__:{d[5:]}", "exactly-once flag is not initialised to False", loc=loc(SCEN, st))
                init_flags.add(d[5:])
        elif isinstance(st, ast.For) and isinstance(st.target, ast.Name):
            # for flag in ("A_SET", ...): setattr(self, flag, False)
            elts = _literal_seq(st.iter, init)
            if not elts or not all(isinstance(e, ast.Constant) and isinstance(e.value, str) for e in elts):
                continue
            for a_ in st.body:
                c_ = a_.value if isinstance(a_, ast.Expr) else None
                if isinstance(c_, ast.Call) and dotted(c_.func) == "setattr" and len(c_.args) == 3 and norm_src(c_.args[0]) == "self":
                    for e in elts:
                        try:
                            nm = str_eval(c_.args[1], st.target.id, e.value)
                        except AnalysisError:
                            nm = None
                        if isinstance(nm, str) and nm.endswith("_SET"):
                            ok = isinstance(c_.args[2], ast.Constant) and c_.args[2].value is False
                            rep.check(ok, rule, f"__init__:{nm}", "exactly-once flag is not initialised to False", loc=loc(SCEN, a_))
                            init_flags.add(nm)
    check_flags = set()
    for st in check.body:
        if isinstance(st, ast.Assert):
            d = dotted(st.test)
            if d and d.endswith("_SET"):
                check_flags.add(d[5:])
        elif isinstance(st, ast.For) and isinstance(st.target, ast.Name):
            elts = _literal_seq(st.iter, check)
            if not elts or not all(isinstance(e, ast.Constant) and isinstance(e.value, str) for e in elts):
                continue
            # for flag in ("A_SET", ...): assert getattr(self, flag)   (the name possibly assembled: flag + "_SET")
            for a_ in st.body:
                if isinstance(a_, ast.Assert) and isinstance(a_.test, ast.Call) and dotted(a_.test.func) == "getattr" and len(a_.test.args) == 2 \
                        and norm_src(a_.test.args[0]) == "self":
                    for e in elts:
                        try:
                            nm = str_eval(a_.test.args[1], st.target.id, e.value)
                        except AnalysisError:
                            nm = None
                        if isinstance(nm, str) and nm.endswith("_SET"):
                            check_flags.add(nm)
    # flags addressed by a computed name inside a setter (`getattr(self, nutrient + "_SET")`, `setattr(self, flag_name, True)`): which family a
    # call applies is then decided by its arguments, which this rule does not follow - no verdict either way
    for name, fn in methods.items():
        if name in ("__init__", "check_all_set"):
            continue
        for c_ in [c_ for c_ in ast.walk(fn) if isinstance(c_, ast.Call) and isinstance(c_.func, ast.Name) and c_.func.id in ("getattr", "setattr")
                   and len(c_.args) >= 2 and norm_src(c_.args[0]) == "self" and str_const(c_.args[1]) is None]:
            raise AnalysisError(f"Scenarios.{name} addresses an attribute of the loader by a computed name ({norm_src(c_)[:60]}): the exactly-once "
                                "flag a call applies depends on its arguments, which the protocol rules do not follow")
    setters = {}
    helpers = {}
    # a method holding only one half of the protocol (the assert, or the set) that the dispatcher never calls and other methods of the class do
    # is a shared tail/head of those setters: read as part of each of them (its statements inlined at the call), itself a helper
    from .core import flatten_function
    halves = {}
    for name, fn in methods.items():
        if name in NON_SETTERS:
            continue
        top = [s for s in fn.body if not (isinstance(s, ast.Expr) and isinstance(s.value, ast.Constant))]
        n_a = sum(1 for s in top if flag_of_assert(s))
        n_s = sum(1 for s in walk_no_nested(fn) if flag_of_set(s))
        if (n_a == 0) != (n_s == 0):
            halves[name] = fn
    run_calls = {n.func.attr for n in ast.walk(index.module(RUN)) if isinstance(n, ast.Call) and isinstance(n.func, ast.Attribute)}
    callers_of = {h: [m for m, f in methods.items() if m != h and any(isinstance(c, ast.Call) and dotted(c.func) == "self." + h for c in ast.walk(f))]
                  for h in halves}
    halves = {h: f for h, f in halves.items() if h not in run_calls and callers_of[h]}
    flat_view = {}
    for h in halves:
        for m in callers_of[h]:
            if m not in halves and m not in flat_view:
                flat_view[m] = flatten_function(methods[m], halves, (), 2, cls_name="Scenarios")
    for name, fn in methods.items():
        if name in NON_SETTERS:
            continue
        if name in halves:
            helpers[name] = fn
            continue
        fn = flat_view.get(name, fn)
        body = [s for s in fn.body if not (isinstance(s, ast.Expr) and isinstance(s.value, ast.Constant))]
        asserts = [(i, flag_of_assert(s)) for i, s in enumerate(body) if flag_of_assert(s)]
        sets = [(i, flag_of_set(s)) for i, s in enumerate(body) if flag_of_set(s)]
        nested_sets = [s for s in walk_no_nested(fn) if flag_of_set(s) and s not in body]
        if not asserts and not sets and not nested_sets:
            helpers[name] = fn
            continue
        fams = {f for _, f in asserts} | {f for _, f in sets}
        construct = f"Scenarios.{name}"
        if len(fams) != 1 or len(asserts) != 1 or len(sets) != 1 or nested_sets:
            rep.violation(rule, construct,
                          f"setter does not follow assert-not-set / set-once for exactly one family (asserts {asserts}, sets {sets}, "
                          f"conditional sets {len(nested_sets)})", loc=loc(SCEN, fn))
            fam = sorted(fams)[0] if fams else None
            setters[name] = dict(fn=fn, family=fam)
            continue
        fam = fams.pop()
        ai, si = asserts[0][0], sets[0][0]
        # first write to a constants dict / first helper or init call must come after the assert
        first_write = None
        for i, s in enumerate(body):
            if _writes_constants(s, methods):
                first_write = i
                break
        ok_assert = first_write is None or ai < first_write
        # every return is top-level and after the set statement; no return nested before it
        rets_top = [i for i, s in enumerate(body) if isinstance(s, ast.Return)]
        rets_nested = [s for s in walk_no_nested(fn) if isinstance(s, ast.Return) and s not in body]
        nested_before = [s for s in rets_nested if s.lineno < body[si].lineno]
        ok_set = all(i > si for i in rets_top) and not nested_before and ai < si
        rep.check(ok_assert, rule, construct + ":assert-first",
                  f"constants are written before `assert not self.{fam}` (a second application would be half applied before "
                  "it is refused)", loc=loc(SCEN, fn))
        rep.check(ok_set, rule, construct + ":set-before-return",
                  f"a path returns without setting self.{fam} = True (the option could be applied twice / never counted)",
                  loc=loc(SCEN, fn))
        setters[name] = dict(fn=fn, family=fam)
    # a method that does nothing but hand over to a setter (`return self.<setter>(...)`, or the call followed by a plain return) is a
    # setter of the same family: the delegate asserts and sets the flag on its behalf
    changed = True
    while changed:
        changed = False
        for name, fn in list(helpers.items()):
            body = [s_ for s_ in fn.body if not (isinstance(s_, ast.Expr) and isinstance(s_.value, ast.Constant))]
            # what a delegating setter says about itself in the run's description is no part of the protocol
            body = [s_ for s_ in body if not (isinstance(s_, (ast.AugAssign, ast.Assign)) and norm_src(s_.target if isinstance(s_, ast.AugAssign) else s_.targets[0])
                                              == "self.scenario_description")
                    and not (isinstance(s_, ast.Assert) and "_SET" not in norm_src(s_.test) and not any(isinstance(c_, ast.Call) and isinstance(c_.func, ast.Attribute)
                                                                                                         and c_.func.attr not in ("keys", "get") for c_ in ast.walk(s_.test)))]
            call = None
            if len(body) == 1 and isinstance(body[0], ast.Return) and isinstance(body[0].value, ast.Call):
                call = body[0].value
            elif len(body) == 2 and isinstance(body[0], ast.Expr) and isinstance(body[0].value, ast.Call) and isinstance(body[1], ast.Return) \
                    and (body[1].value is None or isinstance(body[1].value, ast.Name)):
                call = body[0].value
            d = dotted(call.func) if call is not None else None
            if d and d.startswith("self.") and d[5:] in setters and setters[d[5:]]["family"]:
                setters[name] = dict(fn=fn, family=setters[d[5:]]["family"], delegates_to=d[5:])
                del helpers[name]
                rep.ok(rule, f"Scenarios.{name}:delegates-to-setter", detail=d[5:])
                changed = True
    used = {v["family"] for v in setters.values() if v["family"]}
    rep.check(init_flags == check_flags == used, rule, "flag-sets-agree",
              f"flags initialised {sorted(init_flags - used | used - init_flags)} / asserted by check_all_set "
              f"{sorted(check_flags ^ used)} differ from the families the setters use", loc=loc(SCEN, init))
    # helpers are only called from setters of Scenarios, never from the dispatcher
    run_mod = index.module(RUN)
    for n in ast.walk(run_mod):
        if isinstance(n, ast.Call) and isinstance(n.func, ast.Attribute) and n.func.attr in helpers:
            base = dotted(n.func.value)
            if base in ("scenario_loader", "scenarios_loader"):
                rep.violation(rule, f"helper-called-directly:{n.func.attr}",
                              "a flag-less helper of Scenarios is called from the dispatcher (bypasses exactly-once)",
                              loc=loc(RUN, n))
    rep.ok(rule, "helpers-only-from-setters", detail=f"{len(helpers)} helpers")
    # check_all_set is called before constants are consumed
    p = index.func(PARAMS, "Parameters.compute_parameters_first_round")
    body = [s for s in p.body if not (isinstance(s, ast.Expr) and isinstance(s.value, ast.Constant))]
    idx = None
    for i, s in enumerate(body):
        if any(isinstance(c, ast.Call) and isinstance(c.func, ast.Attribute) and c.func.attr == "check_all_set" for c in ast.walk(s)):
            idx = i
            break
    first_read = None
    for i, s in enumerate(body):
        if any(isinstance(n, ast.Subscript) and isinstance(n.value, ast.Name) and n.value.id == "constants_inputs"
               and isinstance(n.ctx, ast.Load) for n in ast.walk(s)):
            first_read = i
            break
    in_callee = idx is not None and (first_read is None or idx <= first_read)
    in_callers = False
    if idx is None:
        # ... or by every caller, unconditionally, before it hands the constants over
        sites = []
        for rel in index.py_files("src"):
            for f_ in [n_ for n_ in ast.walk(index.module(rel)) if isinstance(n_, ast.FunctionDef)]:
                top = [s_ for s_ in f_.body]
                for i, s_ in enumerate(top):
                    if any(isinstance(c, ast.Call) and isinstance(c.func, ast.Attribute) and c.func.attr == "compute_parameters_first_round" for c in ast.walk(s_)) \
                            and not isinstance(s_, (ast.FunctionDef, ast.ClassDef)):
                        before = any(isinstance(b_, ast.Expr) and isinstance(b_.value, ast.Call) and isinstance(b_.value.func, ast.Attribute)
                                     and b_.value.func.attr == "check_all_set" for b_ in top[:i])
                        sites.append(before and not isinstance(s_, (ast.If, ast.For, ast.While, ast.Try, ast.With)))
        in_callers = bool(sites) and all(sites)
    rep.check(in_callee or in_callers, rule, "check_all_set-before-use",
              "compute_parameters_first_round reads scenario constants before (or without) calling check_all_set()",
              loc=loc(PARAMS, p))
    rep.note_analysed("setters", len(setters))
    rep.note_analysed("helpers", sorted(helpers))
    rep.require_min(rule, 100)
    return dict(setters=setters, helpers=helpers, methods=methods)


def _writes_constants(st, methods):
    for n in ast.walk(st):
        if isinstance(n, ast.Call) and isinstance(n.func, ast.Attribute) and n.func.attr in ("update", "setdefault", "pop"):
            b = n.func.value
            while isinstance(b, ast.Subscript):
                b = b.value
            if isinstance(b, ast.Name) and b.id in DICTS:
                return True
        if isinstance(n, (ast.Assign, ast.AugAssign)):
            tgts = n.targets if isinstance(n, ast.Assign) else [n.target]
            for t in tgts:
                if isinstance(t, ast.Subscript):
                    base, _ = key_chain(t)
                    if base in DICTS:
                        return True
                if isinstance(t, ast.Name) and t.id in DICTS and isinstance(n.value, ast.Call) \
                        and (dotted(n.value.func) or "").startswith("self."):
                    return True
        if isinstance(n, ast.Call):
            d = dotted(n.func)
            if d and d.startswith("self.") and d[5:] in methods and d[5:] not in NON_SETTERS:
                return True
    return False


# ------------------------------------------------------------------------------------------ C13.DISPATCH


def option_test(test, var="scenario_option_copy"):
    """scenario_option_copy["key"] == "value" -> (key, value)"""
    if isinstance(test, ast.Compare) and len(test.ops) == 1 and isinstance(test.ops[0], ast.Eq):
        l, r = test.left, test.comparators[0]
        if isinstance(l, ast.Subscript) and isinstance(l.value, ast.Name) and l.value.id == var:
            k, v = str_const(l.slice), str_const(r)
            if k is not None and v is not None:
                return k, v
    return None


def table_helper(h):
    """is `h` a table dispatcher - `for value, setter in <table param>: if <option param> == value: return setter(<arg param>)` followed by
    the refusal?  -> (option parameter, table parameter, argument parameter, statements after the loop) or None"""
    params = [a.arg for a in h.args.args if a.arg not in ("self", "cls")]
    body = [s_ for s_ in h.body if not (isinstance(s_, ast.Expr) and isinstance(s_.value, ast.Constant))]
    loops = [s_ for s_ in body if isinstance(s_, ast.For)]
    if len(loops) != 1 or body.index(loops[0]) != 0:
        return None
    lp = loops[0]
    if not (isinstance(lp.iter, ast.Name) and lp.iter.id in params and isinstance(lp.target, ast.Tuple) and len(lp.target.elts) == 2
            and all(isinstance(e, ast.Name) for e in lp.target.elts) and len(lp.body) == 1 and isinstance(lp.body[0], ast.If) and not lp.body[0].orelse):
        return None
    vname, sname = lp.target.elts[0].id, lp.target.elts[1].id
    t = lp.body[0].test
    if not (isinstance(t, ast.Compare) and len(t.ops) == 1 and isinstance(t.ops[0], ast.Eq)):
        return None
    sides = [t.left, t.comparators[0]]
    names = [x.id for x in sides if isinstance(x, ast.Name)]
    if len(names) != 2 or vname not in names:
        return None
    p_opt = [n for n in names if n != vname][0]
    ib = list(lp.body[0].body)
    p_loader = None
    # the setter may be listed by name: `setter = getattr(<loader parameter>, name)` first
    if len(ib) == 2 and isinstance(ib[0], ast.Assign) and len(ib[0].targets) == 1 and isinstance(ib[0].targets[0], ast.Name) \
            and isinstance(ib[0].value, ast.Call) and dotted(ib[0].value.func) == "getattr" and len(ib[0].value.args) == 2 \
            and isinstance(ib[0].value.args[0], ast.Name) and ib[0].value.args[0].id in params \
            and isinstance(ib[0].value.args[1], ast.Name) and ib[0].value.args[1].id == sname:
        p_loader = ib[0].value.args[0].id
        sname = ib[0].targets[0].id
        ib = ib[1:]
    if not (len(ib) == 1 and isinstance(ib[0], ast.Return) and isinstance(ib[0].value, ast.Call) and isinstance(ib[0].value.func, ast.Name)
            and ib[0].value.func.id == sname and len(ib[0].value.args) == 1 and isinstance(ib[0].value.args[0], ast.Name) and not ib[0].value.keywords):
        return None
    p_arg = ib[0].value.args[0].id
    if p_opt not in params or p_arg not in params:
        return None
    return p_opt, lp.iter.id, p_arg, body[1:], p_loader


def dispatch(index, rep, sinfo):
    rule = "C13.DISPATCH"
    fn = index.func(RUN, "ScenarioRunner.set_depending_on_option")
    setters = sinfo["setters"]
    # presence assertions
    present = set()
    for st in fn.body:
        if isinstance(st, ast.Assert) and isinstance(st.test, ast.Compare) and isinstance(st.test.ops[0], ast.In):
            k = str_const(st.test.left)
            if k and norm_src(st.test.comparators[0]) in ("scenario_option.keys()", "scenario_option"):
                present.add((k, st.lineno))
        # the same assertion made in a loop over a literal list of required keys
        if isinstance(st, ast.For) and isinstance(st.target, ast.Name):
            from .core import Inliner
            it_src = Inliner(fn).expr(st.iter)
            keys_ = [str_const(e) for e in it_src.elts] if isinstance(it_src, (ast.List, ast.Tuple, ast.Set)) else []
            if keys_ and all(keys_):
                for a_ in st.body:
                    if isinstance(a_, ast.Assert) and isinstance(a_.test, ast.Compare) and isinstance(a_.test.ops[0], ast.In) \
                            and norm_src(a_.test.left) == st.target.id and norm_src(a_.test.comparators[0]) in ("scenario_option.keys()", "scenario_option"):
                        for k in keys_:
                            present.add((k, st.lineno))
    # a validation pass made before the dispatch: a table {option key: accepted values} of the module and loops over it asserting that the key
    # is there and that its value is one of the accepted ones - written in the dispatcher itself or in a helper it calls first
    validated = {}
    modbody = index.module(RUN).body
    tables = {}
    for st in modbody:
        if isinstance(st, ast.Assign) and len(st.targets) == 1 and isinstance(st.targets[0], ast.Name) and isinstance(st.value, ast.Dict) and st.value.keys \
                and all(str_const(k_) is not None for k_ in st.value.keys) \
                and all(isinstance(v_, (ast.Tuple, ast.List, ast.Set)) and all(str_const(e_) is not None for e_ in v_.elts) for v_ in st.value.values):
            tables[st.targets[0].id] = {str_const(k_): [str_const(e_) for e_ in v_.elts] for k_, v_ in zip(st.value.keys, st.value.values)}

    def read_validation(stmts, opt_name, at_line):
        for st in stmts:
            if not (isinstance(st, ast.For) and not st.orelse):
                continue
            it_ = st.iter
            tname, mode = None, None
            if isinstance(it_, ast.Name) and it_.id in tables:
                tname, mode = it_.id, "keys"
            elif isinstance(it_, ast.Call) and isinstance(it_.func, ast.Attribute) and isinstance(it_.func.value, ast.Name) and it_.func.value.id in tables \
                    and it_.func.attr in ("keys", "items") and not it_.args:
                tname, mode = it_.func.value.id, it_.func.attr
            if tname is None:
                continue
            if mode == "items":
                if not (isinstance(st.target, ast.Tuple) and len(st.target.elts) == 2 and all(isinstance(x, ast.Name) for x in st.target.elts)):
                    continue
                kvar, vvar = st.target.elts[0].id, st.target.elts[1].id
            else:
                if not isinstance(st.target, ast.Name):
                    continue
                kvar, vvar = st.target.id, None
            for a_ in st.body:
                if not (isinstance(a_, ast.Assert) and isinstance(a_.test, ast.Compare) and len(a_.test.ops) == 1 and isinstance(a_.test.ops[0], ast.In)):
                    continue
                left, right = norm_src(a_.test.left), norm_src(a_.test.comparators[0])
                if left == kvar and right in (f"{opt_name}.keys()", opt_name):
                    for k_ in tables[tname]:
                        present.add((k_, at_line))
                if left == f"{opt_name}[{kvar}]" and (right == vvar or right == f"{tname}[{kvar}]"):
                    for k_, vals_ in tables[tname].items():
                        validated[k_] = list(vals_)

    if tables:
        read_validation(fn.body, "scenario_option", min((s_.lineno for s_ in fn.body if isinstance(s_, ast.For)), default=0))
        for st in fn.body:
            c_ = st.value if isinstance(st, ast.Expr) and isinstance(st.value, ast.Call) else None
            d_ = dotted(c_.func) if c_ is not None else None
            h_ = None
            if d_ and d_.startswith("self.") and d_[5:] in index.methods(RUN, "ScenarioRunner"):
                h_, skip_ = index.methods(RUN, "ScenarioRunner")[d_[5:]], 1
            elif d_ and any(isinstance(f_, ast.FunctionDef) and f_.name == d_ for f_ in modbody):
                h_, skip_ = next(f_ for f_ in modbody if isinstance(f_, ast.FunctionDef) and f_.name == d_), 0
            if h_ is None or len(c_.args) + len(c_.keywords) != 1:
                continue
            arg_ = (c_.args or [c_.keywords[0].value])[0]
            if norm_src(arg_) != "scenario_option" or len(h_.args.args) != skip_ + 1:
                continue
            # the helper only checks: nothing but assertions (in loops), no stores into its argument
            pure = all(isinstance(n_, (ast.For, ast.Assert, ast.Expr, ast.Pass)) and not (isinstance(n_, ast.Expr) and not isinstance(n_.value, ast.Constant))
                       for n_ in h_.body) and all(isinstance(b_, (ast.Assert, ast.Pass)) for n_ in h_.body if isinstance(n_, ast.For) for b_ in n_.body)
            if pure:
                read_validation(h_.body, h_.args.args[skip_].arg, st.lineno)
    chains = {}
    order = []
    for st in fn.body:
        if not isinstance(st, ast.If):
            continue
        first = option_test(st.test)
        if not first:
            continue
        key = first[0]
        arms = []
        cur = st
        else_block = None
        while True:
            ot = option_test(cur.test)
            if not ot or ot[0] != key:
                rep.violation(rule, f"option[{key}]:mixed-chain", "an elif of this chain tests a different option key",
                              loc=loc(RUN, cur))
                break
            arms.append((ot[1], cur.body, cur))
            if len(cur.orelse) == 1 and isinstance(cur.orelse[0], ast.If) and option_test(cur.orelse[0].test):
                cur = cur.orelse[0]
                continue
            else_block = cur.orelse
            break
        chains[key] = dict(arms=arms, else_block=else_block, node=st)
        order.append(key)
    # the same dispatch written as a table: `cfp = self.<helper>(scenario_option_copy["key"], ((value, setter), ...), cfp, message)` where
    # the helper applies the setter of the first pair whose value equals the option and otherwise refuses (its tail is the else branch)
    from .core import Inliner as _Inl13, bind_args as _ba13
    methods_run = index.methods(RUN, "ScenarioRunner")
    modfuncs_run = {f_.name: f_ for f_ in index.module(RUN).body if isinstance(f_, ast.FunctionDef)}
    from .symx import Interp as _I13
    inl_fn = _Inl13(fn)
    for st in fn.body:
        call = st.value if isinstance(st, (ast.Assign, ast.Expr)) and isinstance(st.value, ast.Call) else None
        d = dotted(call.func) if call is not None else None
        helper = None
        if d and d.startswith("self.") and d[5:] in methods_run:
            helper, as_method = methods_run[d[5:]], True
        elif d and d in modfuncs_run:
            helper, as_method = modfuncs_run[d], False       # a module-level dispatcher
        if helper is None:
            continue
        th = table_helper(helper)
        if th is None:
            continue
        p_opt, p_tab, p_arg, tail, p_loader = th
        bound = _ba13(call, helper, method=as_method)
        if p_opt not in bound or p_tab not in bound:
            continue
        o = bound[p_opt]
        key = str_const(o.slice) if isinstance(o, ast.Subscript) and isinstance(o.value, ast.Name) and o.value.id == "scenario_option_copy" else None
        tab = bound[p_tab] if isinstance(bound[p_tab], (ast.Tuple, ast.List)) else _Inl13(fn, max_depth=1).at(st).expr(bound[p_tab])
        if isinstance(tab, ast.Name) and _I13.global_literals is not None and tab.id in _I13.global_literals:
            tab = _I13.global_literals[tab.id]               # a module-level table
        if key is None or not isinstance(tab, (ast.Tuple, ast.List)):
            continue
        arms = []
        okt = True
        for e in tab.elts:
            if isinstance(e, (ast.Tuple, ast.List)) and len(e.elts) == 2 and str_const(e.elts[0]) is not None:
                setter_e = e.elts[1]
                if p_loader is not None:
                    # listed by name and fetched from the loader object handed in
                    if str_const(setter_e) is None or p_loader not in bound:
                        okt = False
                        continue
                    setter_e = ast.Attribute(value=bound[p_loader], attr=str_const(setter_e), ctx=ast.Load())
                body = [ast.Expr(value=ast.Call(func=setter_e, args=[bound[p_arg]] if p_arg in bound else [], keywords=[]))]
                arms.append((str_const(e.elts[0]), body, st))
            else:
                okt = False
        if not okt or key in chains:
            rep.violation(rule, f"option[{key}]:mixed-chain", "the dispatch table of this option is not a literal list of (value, setter) pairs, or the "
                          "option is dispatched twice", loc=loc(RUN, st))
            continue
        chains[key] = dict(arms=arms, else_block=tail, node=st)
        order.append(key)
    order.sort(key=lambda k_: chains[k_]["node"].lineno)
    if len(chains) < 16:
        raise AnalysisError(f"set_depending_on_option: only {len(chains)} option chains recognised")
    accepted = {}
    rejecting = {}
    fam_of_key = {}
    setter_of = {}
    for key, ch in chains.items():
        # presence asserted before the chain
        rep.check(any(k == key and ln < ch["node"].lineno for k, ln in present), rule, f"option[{key}]:presence",
                  f"a missing '{key}' option is not refused by an assertion before its first use", loc=loc(RUN, ch["node"]))
        # else branch rejects
        eb = ch["else_block"] or []
        rej = any(isinstance(s, ast.Assert) and norm_src(s.test) in ("scenario_is_correct", "False") for s in eb) and \
            any(isinstance(s, ast.Assign) and norm_src(s) == "scenario_is_correct = False" for s in eb)
        if not rej and key in validated:
            # refused up front: whatever the validation pass lets through has an arm of its own
            handled = {v_ for v_, _, _ in ch["arms"]}
            rej = set(validated[key]) <= handled
        rep.check(rej, rule, f"option[{key}]:unknown-rejected",
                  f"an unknown value of '{key}' is not rejected (final else must assert)", loc=loc(RUN, ch["node"]))
        if key in validated:
            for v_, _, node_ in ch["arms"]:
                rep.check(v_ in validated[key], rule, f"option[{key}={v_}]:accepted-by-the-validation-pass",
                          f"the dispatcher has an arm for {key}={v_!r} but the validation pass made before it refuses that value: a supported value "
                          "is rejected", loc=loc(RUN, node_))
        fams = set()
        vals = []
        for val, body, node in ch["arms"]:
            calls = [c for s in body for c in ast.walk(s) if isinstance(c, ast.Call) and isinstance(c.func, ast.Attribute)
                     and dotted(c.func.value) == "scenario_loader"]
            exits = [i for i, s in enumerate(body) if any(isinstance(c, ast.Call) and dotted(c.func) in ("sys.exit", "exit", "quit")
                                                           for c in ast.walk(s))]
            if exits:
                rejecting.setdefault(key, []).append(val)
                rep.ok(rule, f"option[{key}={val}]:rejecting-arm", detail="arm stops with sys.exit() before any setter")
                continue
            names = [c.func.attr for c in calls]
            ok = len(names) == 1 and names[0] in setters
            rep.check(ok, rule, f"option[{key}={val}]:one-setter",
                      f"arm does not call exactly one Scenarios setter (calls {names})", loc=loc(RUN, node))
            if ok:
                fams.add(setters[names[0]]["family"])
                setter_of[(key, val)] = names[0]
                vals.append(val)
        if vals and len(vals) != len(set(vals)):
            rep.violation(rule, f"option[{key}]:duplicate-value", "the same value is tested twice (second arm unreachable)",
                          loc=loc(RUN, ch["node"]))
        rep.check(len(fams) == 1, rule, f"option[{key}]:family",
                  f"the arms of '{key}' set different exactly-once families {sorted(map(str, fams))}", loc=loc(RUN, ch["node"]))
        accepted[key] = vals
        if len(fams) == 1:
            fam_of_key[key] = fams.pop()
    # distinct option keys own distinct families
    inv = {}
    for k, f in fam_of_key.items():
        inv.setdefault(f, []).append(k)
    dup = {f: ks for f, ks in inv.items() if len(ks) > 1}
    rep.check(not dup, rule, "families-distinct", f"two option keys apply the same exactly-once family: {dup}", loc=loc(RUN, fn))
    # every family is applied by the dispatcher (scale via init_*; generic via init_generic)
    all_fams = {v["family"] for v in setters.values()}
    missing = all_fams - set(inv) - {"GENERIC_INITIALIZED_SET"}
    rep.check(not missing, rule, "all-families-dispatched",
              f"families {sorted(missing)} are never applied by set_depending_on_option (check_all_set would fail)", loc=loc(RUN, fn))
    rep.note_analysed("accepted_values", {k: v for k, v in accepted.items()})
    rep.note_analysed("rejecting_arms", rejecting)
    rep.require_min(rule, 16 * 3)
    return dict(chains=chains, accepted=accepted, rejecting=rejecting, fam_of_key=fam_of_key, setter_of=setter_of,
                order=order, fn=fn)


# ------------------------------------------------------------------------------------------ C13.DOC


def parse_readme(index):
    text = index.source(README)
    if "## Allowed Values" not in text:
        raise AnalysisError("scenarios/README.md: section 'Allowed Values' not found")
    sec = text.split("## Allowed Values", 1)[1]
    out = {}
    cur = None
    for line in sec.splitlines():
        m = re.match(r"^\s{2}-\s+\*\*(\w+)\*\*:", line)
        if m:
            cur = m.group(1)
            out.setdefault(cur, [])
            continue
        m = re.match(r"^\s{4}-\s+`([^`]+)`\s*-?\s*(.*)$", line)
        if m and cur:
            out[cur].append((m.group(1), m.group(2)))
    return out


def doc(index, rep, disp):
    rule = "C13.DOC"
    docd = parse_readme(index)
    n = 0
    for key, vals in docd.items():
        if key not in disp["accepted"]:
            rep.check(False, rule, f"README:{key}", f"documented option key '{key}' is not an option of the dispatcher",
                      loc=README)
            continue
        for v, desc in vals:
            n += 1
            if v in disp["accepted"][key]:
                rep.ok(rule, f"README:{key}={v}")
            elif v in disp["rejecting"].get(key, []):
                ok = "not supported" in desc.lower() or "unsupported" in desc.lower()
                rep.check(ok, rule, f"README:{key}={v}",
                          "documented as an allowed value but the dispatcher stops the run for it (sys.exit); the "
                          "documentation must say it is not supported", loc=README)
            else:
                rep.violation(rule, f"README:{key}={v}",
                              f"documented value is rejected by the dispatcher; accepted: {disp['accepted'][key]}", loc=README)
    undocumented = {k: [v for v in vs if v not in [x for x, _ in docd.get(k, [])]] for k, vs in disp["accepted"].items()}
    undocumented = {k: v for k, v in undocumented.items() if v}
    rep.info(rule, f"accepted but undocumented (not required): {undocumented}")
    if n < 40:
        raise AnalysisError(f"README parser found only {n} documented values")
    rep.require_min(rule, 40)


# ------------------------------------------------------------------------------------------ C13.EFFECT

# keys that only some siblings of a family write, with the reason it is sound
SIBLING_EXCEPTIONS = {
    # key: (text the guarding condition of every read must contain, reason)
    "DELAY.SEAWEED_MONTHS": ("ADD_SEAWEED", "only meaningful with seaweed; written by every setter that enables seaweed"),
    "DELAY.GREENHOUSE_MONTHS": ("ADD_GREENHOUSES", "only meaningful with greenhouses"),
    "GREENHOUSE_AREA_MULTIPLIER": ("ADD_GREENHOUSES", "only meaningful with greenhouses"),
    "GREENHOUSE_GAIN_PCT": ("ADD_GREENHOUSES", "only meaningful with greenhouses"),
    "DELAY.INDUSTRIAL_FOODS_MONTHS": ("ADD_", "only meaningful with an industrial food (SCP / cellulosic sugar)"),
    "ROTATION_IMPROVEMENTS.FAT_RATIO": ("OG_USE_BETTER_ROTATION", "only meaningful with relocated crops"),
    "ROTATION_IMPROVEMENTS.PROTEIN_RATIO": ("OG_USE_BETTER_ROTATION", "only meaningful with relocated crops"),
    "NUMBER_YEARS_TAKES_TO_REACH_INCREASED_AREA": ("RATIO_INCREASED_CROP_AREA", "only meaningful with expanded area"),
}

# numbers the documentation states: (option key, value) -> {written key: literal}
STATED = {
    ("shutoff", "immediate"): {"DELAY.FEED_SHUTOFF_MONTHS": 0, "DELAY.BIOFUEL_SHUTOFF_MONTHS": 0},
    ("shutoff", "one_month_delayed_shutoff"): {"DELAY.FEED_SHUTOFF_MONTHS": 1, "DELAY.BIOFUEL_SHUTOFF_MONTHS": 1,
                                               "MINIMUM_PERCENT_FED_BEFORE_NONHUMAN_CONSUMPTION_ALLOWED": 100},
    ("shutoff", "short_delayed_shutoff"): {"DELAY.FEED_SHUTOFF_MONTHS": 2, "DELAY.BIOFUEL_SHUTOFF_MONTHS": 1,
                                           "MINIMUM_PERCENT_FED_BEFORE_NONHUMAN_CONSUMPTION_ALLOWED": 100},
    ("shutoff", "long_delayed_shutoff"): {"DELAY.FEED_SHUTOFF_MONTHS": 3, "DELAY.BIOFUEL_SHUTOFF_MONTHS": 2,
                                          "MINIMUM_PERCENT_FED_BEFORE_NONHUMAN_CONSUMPTION_ALLOWED": 100},
    ("shutoff", "continued"): {"MINIMUM_PERCENT_FED_BEFORE_NONHUMAN_CONSUMPTION_ALLOWED": 100},
    ("shutoff", "continued_after_10_percent_fed"): {"MINIMUM_PERCENT_FED_BEFORE_NONHUMAN_CONSUMPTION_ALLOWED": 10},
    ("shutoff", "long_delayed_shutoff_after_10_percent_fed"): {"MINIMUM_PERCENT_FED_BEFORE_NONHUMAN_CONSUMPTION_ALLOWED": 10},
    ("stored_food", "zero"): {"ADD_STORED_FOOD": False},
    ("stored_food", "baseline"): {"ADD_STORED_FOOD": True},
    ("cull", "do_eat_culled"): {"ADD_MEAT": True, "ADD_MILK": True},
    ("cull", "dont_eat_culled"): {"ADD_MEAT": False, "ADD_MILK": False},
    ("protein", "not_required"): {"INCLUDE_PROTEIN": False},
    ("fat", "not_required"): {"INCLUDE_FAT": False},
    ("ratio_stocks_untouched", "zero"): {"STORE_FOOD_BETWEEN_YEARS": True},
    ("ratio_stocks_untouched", "baseline"): {"STORE_FOOD_BETWEEN_YEARS": True},
    ("ratio_stocks_untouched", "no_stored_between_years"): {"STORE_FOOD_BETWEEN_YEARS": False},
    ("ratio_stocks_untouched", "baseline_no_stored_between_years"): {"STORE_FOOD_BETWEEN_YEARS": False},
    ("meat_strategy", "reduce_breeding"): {"BREEDING_STRATEGY": "reduced"},
    ("meat_strategy", "baseline_breeding"): {"BREEDING_STRATEGY": "baseline"},
    ("meat_strategy", "feed_only_ruminants"): {"BREEDING_STRATEGY": "feed_only_ruminants"},
}


def effect(index, rep, sinfo, disp):
    rule = "C13.EFFECT"
    setters, methods = sinfo["setters"], sinfo["methods"]
    by_fam = {}
    keysets = {}
    dispatched = set(disp["setter_of"].values())
    delegated_to = {info.get("delegates_to") for info in setters.values() if info.get("delegates_to")}
    for name, info in setters.items():
        wk = written_keys(info["fn"], methods)
        keysets[name] = wk
        if name in delegated_to and name not in dispatched:
            continue        # a shared body the dispatched setters hand over to (with their own tables): judged through them, not on its own
        by_fam.setdefault(info["family"], []).append(name)
    sinfo["keysets"] = keysets
    read_anywhere = all_read_keys(index)
    sinfo["read_anywhere"] = read_anywhere
    for fam, names in sorted(by_fam.items(), key=lambda t: str(t[0])):
        if fam in ("SCALE_SET", "GENERIC_INITIALIZED_SET") or len(names) < 2:
            continue
        union = set()
        for n in names:
            union |= {k for k in keysets[n] if not k.startswith("<") and ".<" not in k}
        for n in names:
            mine = {k for k in keysets[n]}
            missing = {k for k in union - mine if k not in SIBLING_EXCEPTIONS and k in read_anywhere}
            rep.check(not missing, rule, f"siblings[{fam}]:{n}",
                      f"this setter does not write {sorted(missing)} which its siblings {sorted(set(names) - {n})[:3]} write: "
                      "choosing this value leaves those constants undefined or inherited from elsewhere",
                      loc=loc(SCEN, setters[n]["fn"]))
    # documented: `all_resilient_foods_and_more_area` "also expands cropland", the other resilient-food sets do not - decided on the value
    # the setter leaves in RATIO_INCREASED_CROP_AREA when it is evaluated (after the generic initialiser), helpers and store order included
    from .symx import Interp as _IE, Obj as _OE, PDict as _PDE, explore as _exE, Abort as _AbE, Unsupported as _UnE
    from .rat import Rat as _RatE
    scls = index.cls(SCEN, "Scenarios")
    n_sc = 0
    for (okey, oval), sname in sorted(disp["setter_of"].items()):
        if okey != "scenario":
            continue
        fn_s = methods[sname]
        seeds = {}
        final = None
        for _ in range(6):
            def run_s(it, fn_s=fn_s, seeds=seeds):
                it.classes = {"Scenarios": scls}
                o = _OE(scls, {"SCENARIO_SET": False, "scenario_description": "", "GENERIC_INITIALIZED_SET": False}, "self")
                cfp = it.call_function(methods["init_generic_scenario"], [], {}, o)
                if not isinstance(cfp, _PDE):
                    raise _UnE("init_generic_scenario does not return the constants table", fn_s)
                for k_, v_ in seeds.items():
                    cfp.d.setdefault(k_, _PDE({}))
                it.call_function(fn_s, [cfp], {}, o)
                return cfp
            try:
                lv = [x for x in _exE(run_s, month_classes=False) if not isinstance(x[2], _AbE)]
            except _UnE as e:
                m_ = re.search(r"key '(\w+)' not in dict", str(e))
                if m_ and m_.group(1) not in seeds:
                    seeds[m_.group(1)] = True       # a nested table another option family creates first
                    continue
                lv = None
            break
        if not lv or len(lv) != 1:
            rep.info(rule, f"scenario={oval}: setter outside the evaluated fragment (cropland expansion not decided)")
            continue
        final = lv[0][2].d.get("RATIO_INCREASED_CROP_AREA")
        n_sc += 1
        isnum = isinstance(final, _RatE) and final.is_const()
        expands = isnum and final.const_value() > 1
        want_exp = oval == "all_resilient_foods_and_more_area"
        rep.check(isnum and expands == want_exp and (want_exp or final.const_value() == 1), rule, f"scenario={oval}:cropland {'expanded' if want_exp else 'not expanded'}",
                  f"after {sname} the cultivated-area ratio is {final}: the documentation says this resilient-food set "
                  f"{'also expands cropland (ratio > 1)' if want_exp else 'does not expand cropland (ratio 1)'}", loc=loc(SCEN, fn_s))
    # stated numbers
    for (key, val), want in STATED.items():
        sname = disp["setter_of"].get((key, val))
        if sname is None:
            raise AnalysisError(f"documented option {key}={val} has no dispatcher arm (specification table out of date)")
        wk = keysets[sname]
        for k, lit in want.items():
            sts = wk.get(k, [])
            vals = []
            for st, cond, v in sts:
                v = v if v is not None else getattr(st, "value", None)
                # min(<months>, <table>['NMONTHS']) is <months> on every supported horizon (48..120 months) when <months> <= 48
                if isinstance(v, ast.Call) and isinstance(v.func, ast.Name) and v.func.id == "min" and len(v.args) == 2 and not v.keywords:
                    lits = [a_ for a_ in v.args if isinstance(a_, ast.Constant) and isinstance(a_.value, int) and not isinstance(a_.value, bool)]
                    horizon = [a_ for a_ in v.args if isinstance(a_, ast.Subscript) and str_const(a_.slice) == "NMONTHS"] + [
                        a_ for a_ in v.args if isinstance(a_, ast.Name) and a_.id.lower() == "nmonths"]
                    if len(lits) == 1 and len(horizon) == 1 and 0 <= lits[0].value <= 48:
                        v = lits[0]
                vals.append(v.value if isinstance(v, ast.Constant) else ("<" + norm_src(v) + ">" if v is not None else "<?>"))
            ok = len(vals) >= 1 and all(v == lit and type(v) == type(lit) for v in vals)
            rep.check(ok, rule, f"stated[{key}={val}]:{k}",
                      f"the documentation states {k} = {lit!r} for {key}={val}; the setter {sname} writes {vals}",
                      loc=loc(SCEN, setters[sname]["fn"]))
    # keys written by more than one family: the dispatcher order decides the winner; report them
    owners = {}
    for n, wk in keysets.items():
        for k in wk:
            owners.setdefault(k, set()).add(setters[n]["family"])
    multi = {k: sorted(map(str, f)) for k, f in owners.items() if len(f) > 1 and not k.startswith("<")}
    # each shared key must be owned by at most: SCALE_SET (initialiser) + one option family, or listed below
    SHARED_OK = {
        "STORE_FOOD_BETWEEN_YEARS": "not shared today",
        "ADD_SEAWEED": "SCALE initialiser default, overwritten by every scenario setter (dispatch order: scale first)",
    }
    for k, fams in sorted(multi.items()):
        opt_fams = [f for f in fams if f not in ("SCALE_SET", "GENERIC_INITIALIZED_SET")]
        rep.check(len(opt_fams) <= 1 or k in SHARED_OK, rule, f"shared-key:{k}",
                  f"constant {k} is written by several option families {fams}: the second application silently overrides the "
                  "first, so one option changes another option's constants", loc=SCEN)
    # a constant two option families write: the family applied last decides it.  If that family writes the same value whatever its option
    # says while a family applied earlier writes different values for different option values, the earlier option is silently without effect
    chain_order = list(disp["chains"])
    fam_pos = {disp["fam_of_key"][k_]: i_ for i_, k_ in enumerate(chain_order) if k_ in disp["fam_of_key"]}

    def values_of(fam, key):
        vals = set()
        for n_ in by_fam.get(fam, []):
            for st_, cond_, v_ in keysets[n_].get(key, []):
                v_ = v_ if v_ is not None else getattr(st_, "value", None)
                vals.add(norm_src(v_) if v_ is not None else "?")
        return vals

    for k, fams in sorted(multi.items()):
        opt_fams = [f for f in owners[k] if f not in ("SCALE_SET", "GENERIC_INITIALIZED_SET") and f in fam_pos]
        if len(opt_fams) < 2:
            continue
        last = max(opt_fams, key=lambda f: fam_pos[f])
        overridden = [f for f in opt_fams if f != last and len(values_of(f, k)) > 1]
        rep.check(not (len(values_of(last, k)) == 1 and overridden), rule, f"shared-key-order:{k}",
                  f"constant {k} is written by the option families {sorted(map(str, opt_fams))}; {last} is applied last and always writes "
                  f"{sorted(values_of(last, k))}, so what {sorted(map(str, overridden))} chose for it ({sorted(values_of(overridden[0], k)) if overridden else ''}) "
                  "is overridden: those option values are accepted and silently ignored", loc=loc(RUN, disp["fn"]))
    rep.note_analysed("keys_written_by_scale_and_an_option", {k: v for k, v in multi.items()})
    rep.require_min(rule, 60)


def all_read_keys(index):
    ks = set()
    for rel in index.py_files("src"):
        if rel.endswith("scenarios.py"):
            continue
        for k, _ in reads_of(index, rel, ("constants_for_params", "constants_inputs", "constants", "constants_out")):
            ks.add(k)
            parts = k.split(".")
            for i in range(1, len(parts)):
                ks.add(".".join(parts[:i]))
    return ks


# ------------------------------------------------------------------------------------------ C13.NOMUT

MUTATING = {"update", "pop", "popitem", "clear", "setdefault", "__setitem__", "__delitem__", "append", "extend", "insert",
            "remove", "sort", "reverse"}


def param_mutations(fn, param):
    bad = []
    alias = {param}
    changed = True
    while changed:
        changed = False
        for st in walk_no_nested(fn):
            if isinstance(st, ast.Assign) and len(st.targets) == 1 and isinstance(st.targets[0], ast.Name):
                if isinstance(st.value, ast.Name) and st.value.id in alias and st.targets[0].id not in alias:
                    alias.add(st.targets[0].id)
                    changed = True
    for st in walk_no_nested(fn):
        if isinstance(st, (ast.Assign, ast.AugAssign)):
            for t in (st.targets if isinstance(st, ast.Assign) else [st.target]):
                n = t
                while isinstance(n, ast.Subscript):
                    n = n.value
                if isinstance(t, ast.Subscript) and isinstance(n, ast.Name) and n.id in alias:
                    bad.append(f"store {norm_src(t)}")
        if isinstance(st, ast.Delete):
            for t in st.targets:
                n = t
                while isinstance(n, ast.Subscript):
                    n = n.value
                if isinstance(t, ast.Subscript) and isinstance(n, ast.Name) and n.id in alias:
                    bad.append(f"del {norm_src(t)}")
        if isinstance(st, ast.Call) and isinstance(st.func, ast.Attribute) and st.func.attr in MUTATING:
            n = st.func.value
            while isinstance(n, ast.Subscript):
                n = n.value
            if isinstance(n, ast.Name) and n.id in alias:
                bad.append(f"call {norm_src(st.func)}()")
    return bad


def nomut(index, rep):
    rule = "C13.NOMUT"
    for q in ("ScenarioRunner.set_depending_on_option", "ScenarioRunner.alter_scenario_if_known_to_fail"):
        fn = index.func(RUN, q)
        bad = param_mutations(fn, "scenario_option")
        rep.check(not bad, rule, q + ":scenario_option",
                  "the caller's option dictionary is modified: " + "; ".join(bad), loc=loc(RUN, fn))
    # the copy used by the dispatcher is a deep copy on every path
    fn = index.func(RUN, "ScenarioRunner.set_depending_on_option")
    srcs = []
    for st in walk_no_nested(fn):
        if isinstance(st, ast.Assign) and isinstance(st.targets[0], ast.Name) and st.targets[0].id == "scenario_option_copy":
            srcs.append(st.value)
    from .core import args_by_ref_names as _abn13
    alt_fn = index.func(RUN, "ScenarioRunner.alter_scenario_if_known_to_fail")

    def deep_copy_of_options(v):
        if isinstance(v, ast.Call) and dotted(v.func) == "copy.deepcopy" and len(v.args) == 1 and norm_src(v.args[0]) == "scenario_option":
            return True
        if isinstance(v, ast.Call) and dotted(v.func) == "self.alter_scenario_if_known_to_fail":
            got = _abn13(v, alt_fn, ["scenario_option"])[0]
            return got is not None and norm_src(got) == "scenario_option"
        return False

    ok = bool(srcs) and all(deep_copy_of_options(v_) for v_ in srcs)
    srcs = [norm_src(v_) for v_ in srcs]
    rep.check(ok, rule, "set_depending_on_option:scenario_option_copy",
              f"scenario_option_copy is not a deep copy of the caller's options on every path ({srcs})", loc=loc(RUN, fn))
    # reads after the copy go to the copy, never to the original (otherwise an alteration would be ignored)
    # (by statement order, not line distance: every top-level statement AFTER the one that makes the copy)
    alt = index.func(RUN, "ScenarioRunner.alter_scenario_if_known_to_fail")
    # the options parameter of both routines is the parameter they deep-copy (wherever it stands, whatever it is called)
    for f_ in (fn, alt):
        ps_ = [a.arg for a in f_.args.args if a.arg != "self"]
        copied = [p_ for p_ in ps_ if any(isinstance(c_, ast.Call) and dotted(c_.func) == "copy.deepcopy" and c_.args and norm_src(c_.args[0]) == p_
                                          for c_ in ast.walk(f_))]
        if len(copied) == 1 and copied[0] != "scenario_option" and "scenario_option" not in ps_:
            _rename(f_, copied[0], "scenario_option")
            for a_ in f_.args.args:
                if a_.arg == copied[0]:
                    a_.arg = "scenario_option"
    ps_ = [a.arg for a in fn.args.args if a.arg != "self"]
    opt_param = "scenario_option" if "scenario_option" in ps_ else ps_[0]
    top_i = None
    for i_, st in enumerate(fn.body):
        if any(isinstance(x, ast.Assign) and isinstance(x.targets[0], ast.Name) and x.targets[0].id == "scenario_option_copy" for x in ast.walk(st)):
            top_i = i_
            break
    late = []
    if top_i is not None:
        for st in fn.body[top_i + 1:]:
            for n in ast.walk(st):
                if isinstance(n, ast.Subscript) and isinstance(n.value, ast.Name) and n.value.id == opt_param:
                    late.append(n.lineno)
    rep.check(not late, rule, "set_depending_on_option:reads-copy",
              f"option values are read from the caller's dictionary after the (possibly altered) copy was made, lines {late[:4]}",
              loc=loc(RUN, fn))
    alt = index.func(RUN, "ScenarioRunner.alter_scenario_if_known_to_fail")
    deep = {}
    for st in walk_no_nested(alt):
        if isinstance(st, ast.Assign) and isinstance(st.targets[0], ast.Name):
            deep[st.targets[0].id] = norm_src(st.value)
    rets = [s for s in walk_no_nested(alt) if isinstance(s, ast.Return)]
    ok = bool(rets) and all(isinstance(r.value, ast.Name) and deep.get(r.value.id, "") == "copy.deepcopy(scenario_option)" for r in rets)
    rep.check(ok, rule, "alter_scenario_if_known_to_fail:returns-deep-copy",
              "a path returns something other than a deep copy of the options", loc=loc(RUN, alt))
    # the table it deletes from is rebuilt on every call (a local literal)
    tbl = [st for st in alt.body if isinstance(st, ast.Assign) and isinstance(st.targets[0], ast.Name)
           and st.targets[0].id == "failing_scenarios" and isinstance(st.value, ast.List)]
    dels = [st for st in walk_no_nested(alt) if isinstance(st, ast.Delete)]
    ok = bool(tbl) or not dels
    mod_level = [n for n in index.module(RUN).body if isinstance(n, ast.Assign) and "failing_scenarios" in norm_src(n.targets[0])]
    rep.check(ok and not mod_level, rule, "alter_scenario_if_known_to_fail:table-fresh",
              "the failing-scenario table that entries are deleted from is not rebuilt per call (second call would see a "
              "mutilated table)", loc=loc(RUN, alt))
    # no mutable default argument anywhere in run_scenario.py / scenarios.py that is written
    rep.require_min(rule, 5)


# ------------------------------------------------------------------------------------------ C13.OVERRIDE


def py_strip(s, chars):
    return s.strip(chars)


def str_eval(node, var, value):
    """constant folding of a pure string expression in one free variable (the loop variable `var`, bound to the concrete string
    `value`): str methods strip/lstrip/rstrip/removesuffix/removeprefix/replace/split/lower/upper, slicing, indexing, len(), +,
    string and integer literals.  Anything else -> AnalysisError."""
    def ev(n):
        if isinstance(n, ast.Constant) and isinstance(n.value, (str, int)) and not isinstance(n.value, bool):
            return n.value
        if isinstance(n, ast.Name) and n.id == var:
            return value
        if isinstance(n, ast.UnaryOp) and isinstance(n.op, ast.USub):
            return -ev(n.operand)
        if isinstance(n, ast.BinOp) and isinstance(n.op, (ast.Add, ast.Sub)):
            l_, r_ = ev(n.left), ev(n.right)
            return l_ + r_ if isinstance(n.op, ast.Add) else l_ - r_
        if isinstance(n, ast.JoinedStr):
            return "".join(ev(v.value) if isinstance(v, ast.FormattedValue) else v.value for v in n.values)
        if isinstance(n, ast.Call) and isinstance(n.func, ast.Name) and n.func.id == "len" and len(n.args) == 1:
            return len(ev(n.args[0]))
        if isinstance(n, ast.Call) and isinstance(n.func, ast.Attribute) and not n.keywords:
            recv = ev(n.func.value)
            args = [ev(a_) for a_ in n.args]
            if isinstance(recv, str) and n.func.attr in ("strip", "lstrip", "rstrip", "removesuffix", "removeprefix", "replace", "split", "lower", "upper",
                                                         "rsplit", "partition", "rpartition"):
                return getattr(recv, n.func.attr)(*args)
        if isinstance(n, ast.Subscript):
            recv = ev(n.value)
            if isinstance(n.slice, ast.Slice):
                lo = ev(n.slice.lower) if n.slice.lower is not None else None
                hi = ev(n.slice.upper) if n.slice.upper is not None else None
                st_ = ev(n.slice.step) if n.slice.step is not None else None
                return recv[lo:hi:st_]
            return recv[ev(n.slice)]
        raise AnalysisError(f"head-count override: key transform `{norm_src(node)}` is outside the recognised string idioms")

    return ev(node)


def kept_iterators(index, rep):
    """an option value must reach every round: a one-shot iterator kept on the parameters object delivers it to the first round only"""
    rule = "C13.OVERRIDE"
    from .memo import kept_one_shot_iterators
    hits = kept_one_shot_iterators(index, [PARAMS, RUN, SCEN])
    for rel, st, attr, n in hits:
        rep.violation(rule, f"kept-iterator:self.{attr}",
                      f"self.{attr} is bound to a one-shot iterator and read at {n} place(s): its first reader exhausts it, so what it carries (an "
                      "option's values) reaches the first consumer only - later rounds run as if the option had not been given", loc=loc(rel, st))
    if not hits:
        rep.ok(rule, "no one-shot iterator is kept on an object and read twice", detail="zip/map/filter/iter/generator values stored in attributes")


def _later_writers(index, fn, blk, key):
    """statements of `fn` that run after the top-level block `blk` and write constants_for_params[key]: directly, through a Scenarios
    setter (the keys it writes are read off its body, helpers inlined) or through a ScenarioRunner helper (two levels).  A write under a
    test that names the key itself (a default for the absent option) is not followed."""
    smethods = index.methods(SCEN, "Scenarios")
    rmethods = index.methods(RUN, "ScenarioRunner")
    out = []

    def nodes(st):
        if isinstance(st, ast.If) and repr(key) in norm_src(st.test):
            return
        yield st
        for ch in ast.iter_child_nodes(st):
            yield from nodes(ch)

    def scan(stmts, depth, seen, via):
        for st in stmts:
            for n in nodes(st):
                if isinstance(n, (ast.Assign, ast.AugAssign)):
                    for t in (n.targets if isinstance(n, ast.Assign) else [n.target]):
                        if isinstance(t, ast.Subscript):
                            base, ks = key_chain(t)
                            if base in DICTS and ks == [key]:
                                out.append(f"{via}line {n.lineno}: direct store")
                if isinstance(n, ast.Call):
                    d = dotted(n.func) or ""
                    if d.startswith("scenario_loader.") and d.split(".", 1)[1] in smethods:
                        m = d.split(".", 1)[1]
                        if m not in NON_SETTERS and key in written_keys(smethods[m], smethods):
                            out.append(f"{via}line {n.lineno}: Scenarios.{m}() writes it")
                    elif d.startswith("self.") and d[5:] in rmethods and depth < 2 and d[5:] not in seen and rmethods[d[5:]] is not fn:
                        scan(rmethods[d[5:]].body, depth + 1, seen | {d[5:]}, f"{via}{d}() -> ")

    scan(fn.body[fn.body.index(blk) + 1:], 0, set(), "")
    return sorted(set(out))


def override(index, rep):
    rule = "C13.OVERRIDE"
    fn = index.func(RUN, "ScenarioRunner.set_depending_on_option")
    # writer side: f"{key}_start" under `"_head" in key`
    wr = None
    wvar = None
    for st in walk_no_nested(fn):
        m_ = re.fullmatch(r"'_head' in (\w+)", norm_src(st.test)) if isinstance(st, ast.If) else None
        if m_:
            for s_ in st.body:
                if isinstance(s_, ast.Assign) and isinstance(s_.targets[0], ast.Subscript):
                    wr = s_
                    wvar = m_.group(1)
    if wr is None:
        raise AnalysisError("set_depending_on_option: head-count override writer not found")
    wkey = wr.targets[0].slice
    main = index.func(ANIM, "main")
    # the reader sits in main() or in a module-level set-up function main() calls
    called = {c_.func.id for c_ in ast.walk(main) if isinstance(c_, ast.Call) and isinstance(c_.func, ast.Name)}
    hosts = [main] + [f_ for f_ in index.module(ANIM).body if isinstance(f_, ast.FunctionDef) and f_.name in called]
    rd = None
    for host in hosts:
        for st in walk_no_nested(host):
            if isinstance(st, ast.If) and "_head_start" in norm_src(st.test):
                for s in st.body:
                    if isinstance(s, ast.Assign) and isinstance(s.targets[0], ast.Subscript):
                        rd = s
                        main = host
    if rd is None:
        raise AnalysisError("animal_populations.main: head-count override reader not found")
    tgt = rd.targets[0]
    sl = tgt.slice
    if not (isinstance(sl, ast.Tuple) and len(sl.elts) == 2):
        raise AnalysisError("head-count override reader: not df.loc[country, column]")
    transform = norm_src(sl.elts[1])
    rvars = sorted({n_.id for n_ in ast.walk(sl.elts[1]) if isinstance(n_, ast.Name) and n_.id != "len"})
    if len(rvars) != 1:
        raise AnalysisError(f"head-count override reader: the column expression `{transform}` is not a function of the one key variable")
    with open(index.path(HEADCSV), newline="") as f:
        header = next(csv.reader(f))
    head_cols = [c for c in header if c.endswith("_head")]
    if len(head_cols) < 15:
        raise AnalysisError("head-count table has too few *_head columns")
    for col in head_cols:
        stored = str_eval(wkey, wvar, col)
        back = str_eval(sl.elts[1], rvars[0], stored)
        rep.check(back == col and stored.endswith("_head_start"), rule, f"head-override:{col}",
                  f"override key '{col}' is stored as '{stored}' and read back as column '{back}': the override creates a new "
                  f"column instead of changing {col} (transform {transform})", loc=loc(ANIM, rd))
    # applied once: the frame the override is written into is read afresh for this run (not a process-wide cached object)
    from .memo import cached_result_mutations
    files = [r for r in index.py_files("src") if r.startswith(("src/food_system/", "src/optimizer/", "src/scenarios/"))]
    memo, findings = cached_result_mutations(index, files)
    mine = [f for f in findings if f[0] == ANIM]
    rep.check(not mine, rule, "head-override:written-into-this-run's-table-only",
              "the override is written into an object that a memoised reader hands to every later run as well (applied more than once): " +
              "; ".join(f[3] for f in mine[:2]), loc=loc(ANIM, mine[0][1]) if mine else loc(ANIM, rd))
    # the value written is the option's own value
    rep.check(norm_src(wr.value) == f"int(scenario_option_copy[{wvar}])", rule, "head-override:value",
              "the stored head count is not the option's value", loc=loc(RUN, wr))
    # kg_meat_per_large_animal -> MeatAndDairy.KG_PER_LARGE_ANIMAL
    md = index.func("src/food_system/meat_and_dairy.py", "MeatAndDairy.__init__")
    ok = any(isinstance(st, ast.If) and "'kg_meat_per_large_animal' in constants_for_params" in norm_src(st.test)
             and any(norm_src(s) == "self.KG_PER_LARGE_ANIMAL = constants_for_params['kg_meat_per_large_animal']" for s in st.body)
             for st in walk_no_nested(md))
    rep.check(ok, rule, "kg_meat_per_large_animal", "the override no longer reaches MeatAndDairy.KG_PER_LARGE_ANIMAL",
              loc=loc("src/food_system/meat_and_dairy.py", md))
    # threshold and stock ratio: written to exactly their key and range-asserted
    for key, lo, hi in (("MINIMUM_PERCENT_FED_BEFORE_NONHUMAN_CONSUMPTION_ALLOWED", "0", "100"), ("RATIO_STOCKS_UNTOUCHED", "0", "1")):
        blk = [st for st in fn.body if isinstance(st, ast.If) and norm_src(st.test).startswith(f"'{key}' in scenario_option_copy")]
        ok = False
        if len(blk) == 1:
            writes = [s for s in blk[0].body if isinstance(s, ast.Assign)]
            asserts = [s for s in blk[0].body if isinstance(s, ast.Assert)]
            ok = len(writes) == 1 and key_chain(writes[0].targets[0]) == ("constants_for_params", [key]) \
                and norm_src(writes[0].value) == f"float(scenario_option_copy['{key}'])" \
                and any(norm_src(a.test).replace(" ", "") == f"{lo}<=constants_for_params['{key}']<={hi}" for a in asserts)
        if not ok and len(blk) == 1:
            # written another way (through a shared helper, converted and converted back): the block is evaluated - on every completing path
            # the constant is the option's own value, and some assertion over that value is made on the way
            from .symx import Interp as _IO, Obj as _OO, Path as _PO, PDict as _DO, Unsupported as _UO, explore as _eo, Abort as _AO
            rcls = index.cls(RUN, "ScenarioRunner")

            def run_o(it, blk=blk, key=key):
                it.classes = {"ScenarioRunner": rcls}

                def hook(interp, d, a, kw, node):
                    if d in ("float", "np.float64") and len(a) == 1:
                        return a[0]
                    return NotImplemented
                it.call_hook = hook
                cfp = _DO({})
                env = {"self": _OO(rcls, {}, "self"), "scenario_option_copy": _DO({key: _PO(("opt", key))}), "constants_for_params": cfp}
                it.exec_block(blk[0].body, env)
                return cfp
            try:
                lv = [x for x in _eo(run_o, month_classes=False)]
                done = [x for x in lv if not isinstance(x[2], _AO)]
                n_assert = max((len(x[3].asserts) for x in done), default=0)
                ok = bool(done) and n_assert >= 1 and all(
                    x[2].d.get(key) is not None and x[3].to_rat(x[2].d[key]) == x[3].to_rat(_PO(("opt", key))) for x in done)
            except _UO:
                ok = False
        rep.check(ok, rule, f"override:{key}",
                  f"override {key} does not write exactly constants_for_params[{key!r}] = float(option) with a {lo}..{hi} range check",
                  loc=loc(RUN, fn))
        # the override is the last word: no statement that runs after the block writes the same constant again (every shut-off
        # setter writes its own threshold, so an override placed before the dispatch of `shutoff` is silently lost)
        if len(blk) == 1:
            later = _later_writers(index, fn, blk[0], key)
            rep.check(not later, rule, f"override-survives:{key}",
                      f"the configured {key} is overwritten after the override block: " + "; ".join(later[:4]) +
                      " - the option no longer means what it says", loc=loc(RUN, blk[0]))
    # multipliers scale exactly RATIO_CROPS_YEAR1..11 / RATIO_GRASSES_YEAR1..11
    for opt, prefix in (("CROP_PRODUCTION_MULTIPLIER", "RATIO_CROPS_YEAR"), ("GRASSES_PRODUCTION_MULTIPLIER", "RATIO_GRASSES_YEAR")):
        blk = [st for st in fn.body if isinstance(st, ast.If) and norm_src(st.test).startswith(f"'{opt}' in scenario_option_copy")]
        ok = False
        got = []
        if len(blk) == 1:
            # the block is executed abstractly: every RATIO_*_YEARn constant must end up multiplied by the option's value, once,
            # and no other constant may change
            from .symx import Interp as _I, PDict as _PD, Unsupported as _U, explore as _ex, Abort as _Ab
            from .rat import Rat as _R
            keys_all = [f"{p_}{i}" for p_ in ("RATIO_CROPS_YEAR", "RATIO_GRASSES_YEAR") for i in range(1, 13)] + ["OTHER"]
            mval = _R.atom(("option", opt))

            def run_b(it_):
                def hk(interp, d, a, kw, node):
                    if d in ("float", "int") and len(a) == 1:
                        return a[0]
                    return NotImplemented
                it_.call_hook = hk
                cfp = _PD({k_: _R.atom(("c", k_)) for k_ in keys_all})
                env_ = {"constants_for_params": cfp, "scenario_option_copy": _PD({opt: mval})}
                it_.exec_block([x for x in blk[0].body if not isinstance(x, ast.Assert)], env_)
                return cfp

            try:
                outs = [r_ for _, _, r_, _ in _ex(run_b, month_classes=False) if not isinstance(r_, _Ab)]
            except _U as e:
                outs = []
                got = [f"?outside the analysed fragment: {e}"]
            ok = bool(outs)
            for cfp in outs:
                for k_ in keys_all:
                    v_ = cfp.d.get(k_)
                    scaled = k_.startswith(prefix) and k_[len(prefix):] in [str(i) for i in range(1, 12)]
                    want_v = _R.atom(("c", k_)) * mval if scaled else _R.atom(("c", k_))
                    if not (isinstance(v_, _R) and v_ == want_v):
                        ok = False
                        got.append(f"{k_} -> {v_}")
                extra = [k_ for k_ in cfp.d if k_ not in keys_all]
                if extra:
                    ok = False
                    got.append(f"writes {extra}")
        rep.check(ok, rule, f"override:{opt}",
                  f"{opt} must scale exactly {prefix}1..11 once each and nothing else ({sorted(got)[:4]})", loc=loc(RUN, fn))
        # the scaled ratios are the last word as well: nothing that runs after the block writes a yearly ratio again (the disruption
        # setters come first; a setter called afterwards would silently drop the multiplier)
        if len(blk) == 1:
            later = sorted({w for i in range(1, 12) for w in _later_writers(index, fn, blk[0], f"{prefix}{i}")})
            rep.check(not later, rule, f"override-survives:{opt}",
                      f"the yearly ratios scaled by {opt} are written again after the multiplier block: " + "; ".join(later[:4]) +
                      " - the multiplier is lost", loc=loc(RUN, blk[0]))
    rep.require_min(rule, 20)


# ------------------------------------------------------------------------------------------ C13.KEYS


_SUBTABLE_PREFIX = {}


def _subtable_prefixes(index):
    """(method name, parameter) -> "K": every call of the method in src/ hands `<constants table>["K"]` over for that parameter, so what the
    method reads from the parameter are entries of the sub-table K"""
    if id(index) in _SUBTABLE_PREFIX:
        return _SUBTABLE_PREFIX[id(index)]
    from .core import bind_args
    defs, calls = {}, {}
    for rel in index.py_files("src"):
        mod = index.module(rel)
        for f_ in [n for n in ast.walk(mod) if isinstance(n, ast.FunctionDef)]:
            defs.setdefault(f_.name, []).append(f_)
        for c in [n for n in ast.walk(mod) if isinstance(n, ast.Call) and isinstance(n.func, ast.Attribute)]:
            calls.setdefault(c.func.attr, []).append(c)
    out = {}
    for name, fs in defs.items():
        if len(fs) != 1 or name not in calls or name.startswith("__"):
            continue
        fn = fs[0]
        per_param = {}
        for c in calls[name]:
            for p_, a_ in bind_args(c, fn).items():
                k_ = None
                if isinstance(a_, ast.Subscript) and isinstance(a_.value, ast.Name) and a_.value.id in ("constants_for_params", "constants_inputs", "constants") \
                        and str_const(a_.slice):
                    k_ = str_const(a_.slice)
                per_param.setdefault(p_, []).append(k_)
        for p_, ks in per_param.items():
            if ks and all(k == ks[0] and k is not None for k in ks):
                out[(name, p_)] = ks[0]
    _SUBTABLE_PREFIX[id(index)] = out
    return out


def reads_of(index, rel, dictnames):
    out = []
    pre = _subtable_prefixes(index)
    for n in ast.walk(index.module(rel)):
        if isinstance(n, ast.Subscript) and isinstance(n.ctx, ast.Load):
            base, ks = key_chain(n)
            if base in dictnames and ks and not any(k.startswith("<") for k in ks):
                # only the outermost chain
                p = getattr(n, "_parent", None)
                if isinstance(p, ast.Subscript) and p.value is n:
                    continue
                # a parameter that every caller binds to one sub-table: the keys read are that sub-table's
                f_ = p
                while f_ is not None and not isinstance(f_, ast.FunctionDef):
                    f_ = getattr(f_, "_parent", None)
                if f_ is not None and (f_.name, base) in pre:
                    ks = [pre[(f_.name, base)]] + list(ks)
                out.append((".".join(ks), n))
    return out


def keys(index, rep, sinfo, disp):
    rule = "C13.KEYS"
    setters, methods, keysets = sinfo["setters"], sinfo["methods"], sinfo["keysets"]
    # keys every run has: union over the two scale initialisers' common keys + every family's common keys
    init_c = written_keys(methods["init_country_food_system_properties"], methods)
    init_g = written_keys(methods["init_global_food_system_properties"], methods)
    generic = written_keys(methods["init_generic_scenario"], methods)
    always = set(generic) | (set(init_c) & set(init_g))
    by_fam = {}
    dispatched_ = set(disp["setter_of"].values())
    delegated_to_ = {info.get("delegates_to") for info in setters.values() if info.get("delegates_to")}
    for n, info in setters.items():
        if info["family"] in ("SCALE_SET", "GENERIC_INITIALIZED_SET"):
            continue
        if n in delegated_to_ and n not in dispatched_:
            continue        # a shared body, applied only through the dispatched setters that hand their tables to it
        by_fam.setdefault(info["family"], []).append(n)
    sometimes = set()
    for fam, names in by_fam.items():
        common = None
        union = set()
        for n in names:
            ks = {k for k in keysets[n]}
            common = ks if common is None else common & ks
            union |= ks
        always |= (common or set())
        sometimes |= union - (common or set())
    # dispatcher-written keys
    fn = disp["fn"]
    for st in fn.body:
        if isinstance(st, ast.Assign) and isinstance(st.targets[0], ast.Subscript):
            base, ks = key_chain(st.targets[0])
            if base == "constants_for_params" and ks:
                always.add(".".join(ks))
    # scale-specific keys
    scale_only = (set(init_c) ^ set(init_g))
    readers = []
    files = [PARAMS] + ["src/food_system/" + f for f in sorted(os.listdir(index.path("src/food_system"))) if f.endswith(".py")]
    for rel in files:
        readers += [(rel, k, n) for k, n in reads_of(index, rel, ("constants_for_params", "constants_inputs", "constants"))]
    seen = set()
    guards_ok = 0
    for rel, k, n in readers:
        top = k.split(".")[0]
        if (rel, k) in seen:
            continue
        seen.add((rel, k))
        if k in always or top in always and "." in k and k in always | sometimes | set(SIBLING_EXCEPTIONS):
            rep.ok(rule, f"read:{k}@{os.path.basename(rel)}", nontrivial=False)
            continue
        if k in sometimes or k in SIBLING_EXCEPTIONS:
            # must be guarded by the owning flag in the reader (lexically, or at every call site of the reading function)
            need = SIBLING_EXCEPTIONS.get(k, ("", ""))[0]
            g = _guard_text(n)
            if need not in g or not g:
                g2 = _callsite_guards(index, files, n)
                ok = bool(g2) and all(x and need in x for x in g2)
                g = g + " | call sites: " + "; ".join(g2)
            else:
                ok = True
            rep.check(ok, rule, f"read:{k}@{os.path.basename(rel)}",
                      f"constant {k} is written only by some option values but is read without a guard on {need or 'its flag'}",
                      loc=loc(rel, n), detail=g)
            continue
        if k in scale_only or top in {x.split(".")[0] for x in scale_only}:
            rep.info(rule, f"{k} read in {rel} is written by only one scale initialiser")
            continue
        if top in {x.split(".")[0] for x in always | sometimes}:
            rep.ok(rule, f"read:{k}@{os.path.basename(rel)}", nontrivial=False)
            continue
        if any(_written_locally(index, r2, k) for r2 in files):
            rep.ok(rule, f"read:{k}@{os.path.basename(rel)}", detail="written by the parameter pipeline itself", nontrivial=False)
            continue
        if f"'{k}' in" in _guard_text(n):
            rep.ok(rule, f"read:{k}@{os.path.basename(rel)}", detail="optional override: read under a membership test")
            continue
        rep.violation(rule, f"read:{k}@{os.path.basename(rel)}",
                      f"constant {k} is read but no scenario setter, initialiser or dispatcher statement writes it", loc=loc(rel, n))
    # shipped presets: keys and values accepted
    presets = 0
    for fnm in sorted(os.listdir(index.path("scenarios"))):
        if not fnm.endswith(".yaml"):
            continue
        sims = parse_yaml_presets(index.source("scenarios/" + fnm), fnm)
        for sname, opts in sims.items():
            presets += 1
            bad = []
            for key in disp["accepted"]:
                if key not in opts:
                    bad.append(f"missing {key}")
                elif opts[key] not in disp["accepted"][key]:
                    bad.append(f"{key}={opts[key]} not accepted")
            rep.check(not bad, rule, f"preset:{fnm}:{sname}", "shipped preset is rejected by the loader: " + "; ".join(bad),
                      loc="scenarios/" + fnm)
    rep.note_analysed("shipped_presets", presets)
    rep.require_min(rule, 40)


def _guard_text(n):
    """conditions under which the node executes: enclosing if-tests plus `not (t)` for every earlier sibling
    `if t: ... return/raise` (early-exit guard)"""
    cur = n
    out = []
    while cur is not None:
        p = getattr(cur, "_parent", None)
        if isinstance(p, ast.If):
            if cur in p.body:
                out.append(norm_src(p.test))
            elif cur in p.orelse:
                out.append("not (" + norm_src(p.test) + ")")
        if isinstance(p, ast.IfExp) and cur is p.body:
            out.append(norm_src(p.test))
        if isinstance(p, ast.Try):
            out.append("try")
        for field in ("body", "orelse"):
            block = getattr(p, field, None) if p is not None else None
            if isinstance(block, list) and cur in block:
                for st in block[: block.index(cur)]:
                    if isinstance(st, ast.If) and st.body and isinstance(st.body[-1], (ast.Return, ast.Raise)):
                        out.append("not (" + norm_src(st.test) + ")")
        cur = p
    return " & ".join(out)


def _callsite_guards(index, files, node, depth=3):
    """guard text of every call site of the function that contains `node`; a call site with no guard of its own inherits the guards of
    the call sites of the function it sits in (a read moved into a helper of a guarded routine stays guarded)"""
    fn = node
    while fn is not None and not isinstance(fn, ast.FunctionDef):
        fn = getattr(fn, "_parent", None)
    if fn is None:
        return []
    out = []
    for rel in files:
        for c in ast.walk(index.module(rel)):
            if isinstance(c, ast.Call) and isinstance(c.func, ast.Attribute) and c.func.attr == fn.name:
                g = _guard_text(c)
                if depth > 0:
                    outer = _callsite_guards(index, files, c, depth - 1)
                    if outer:
                        out += [(g + " && " + o) if g else o for o in outer]
                        continue
                out.append(g)
    return out


def _written_locally(index, rel, k):
    for n in ast.walk(index.module(rel)):
        if isinstance(n, (ast.Assign, ast.AugAssign)):
            for t in (n.targets if isinstance(n, ast.Assign) else [n.target]):
                if isinstance(t, ast.Subscript):
                    base, ks = key_chain(t)
                    if ks and ".".join(ks) == k:
                        return True
    return False


def parse_yaml_presets(text, name):
    """subset YAML: nested mappings of scalars with 2-space indentation (what the shipped files use)"""
    sims = {}
    section = None
    cur = None
    for raw in text.splitlines():
        line = raw.split(" #")[0].rstrip() if not raw.lstrip().startswith("#") else ""
        if not line.strip():
            continue
        indent = len(line) - len(line.lstrip(" "))
        body = line.strip()
        if body.startswith("- "):
            if section == "settings":
                continue
            raise AnalysisError(f"{name}: YAML sequence outside settings (outside the supported subset)")
        if ":" not in body:
            raise AnalysisError(f"{name}: unsupported YAML line {body!r}")
        k, v = body.split(":", 1)
        k, v = k.strip(), v.strip()
        if indent == 0:
            section = k
            cur = None
        elif section == "simulations" and indent == 2:
            if v:
                raise AnalysisError(f"{name}: scalar where a scenario mapping was expected")
            cur = k
            sims[cur] = {}
        elif section == "simulations" and indent >= 4 and cur:
            sims[cur][k] = v.strip("'\"")
    if not sims:
        raise AnalysisError(f"{name}: no simulations parsed")
    return sims


def describe(rep):
    rep.explanation = (
        "AST/artefact analyses of scenarios.py, run_scenario.py, animal_populations.main, scenarios/README.md, the shipped "
        "YAML presets and the head-count table header. C13.ONCE: every setter asserts its family flag unset before its first "
        "write to the constants and sets it before every return; flag sets of __init__, check_all_set and the setters agree; "
        "check_all_set runs before the constants are consumed. C13.DISPATCH: each of the 16 option keys is asserted present, "
        "each if/elif arm calls exactly one setter of one family, the final else rejects, families are distinct and all "
        "applied. C13.DOC: each documented value is accepted (or documented as unsupported when its arm stops the run). "
        "C13.EFFECT: sibling setters write identical key sets (reasoned exceptions), literals equal the numbers the "
        "documentation states, no constant is owned by two option families. C13.NOMUT: no store/del/mutating call reaches the "
        "caller's dictionary; the working copy is a deep copy on every path. C13.OVERRIDE: the '<species>_head' -> "
        "'<species>_head_start' -> table column round trip is evaluated for every *_head column of the table; the other "
        "overrides write exactly their key with a range check; multipliers scale exactly the 11 yearly ratios. C13.KEYS: every "
        "constant read by parameters.py / food_system is written by every option value of its family or guarded."
    )
    rep.assumptions = ["string semantics of str.strip/removesuffix/slicing as in CPython (evaluated by the checker on the 21 species)",
                       "the YAML presets use only nested mappings of scalars (anything else is ANALYSIS-ERROR)"]
