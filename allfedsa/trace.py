"""Provenance trace of a block of code: WHAT is passed, stored and appended, independent of the names of the locals in between.

The block (typically the body of the month loop of the herd simulation) is abstractly executed once per feasible combination of
its data-dependent tests.  Calls to the repository's own routines are not entered: each becomes an *event* (callee, abstract
arguments) and returns fresh atoms named after the callee and the result position (`<ret calculate_births #1>`).  A `for x in
<collection>` inside the block is executed for ONE generic element bound to an object whose attribute reads are atoms
(`<elem.animal_type>`), whose `x.attr.append(v)` calls are events and whose method calls return atoms.  Dictionary stores and
loads with such keys are modelled exactly, so "what pass 2 stored under the animal's species is what pass 3 reads" is followed.
Rules then state relations between events (the value appended to `births_animals_month` IS result 0 of the births routine, and
it IS a summand of argument 2 of the population step), which no renaming or re-ordering of locals can change."""
from __future__ import annotations

import ast

from .core import norm_src, walk_no_nested, dotted
from .symx import Interp, Obj, Path, PDict, PList, Opaque, Unsupported, explore, Abort, canon, _Return, _Continue, _Break
from .rat import Rat


class Event:
    def __init__(self, kind, name, args=(), kwargs=None, node=None, elem=None, pass_no=None):
        self.kind, self.name, self.args, self.kwargs, self.node, self.elem, self.pass_no = kind, name, list(args), dict(kwargs or {}), node, elem, pass_no
        self.base = None      # store events: abstract value of the container stored into
        self.iter = 0         # iteration of the generic-element loop

    def __repr__(self):
        return f"{self.kind}:{self.name}({', '.join(canon(a)[:40] for a in self.args)})"


def ret_atom(name, k=None):
    """result of a traced call: a Path, so that attribute access (`.kcals`) and arithmetic both work on it"""
    return Path((f"ret:{name}" if k is None else f"ret:{name}#{k}",))


def elem_attr(attr):
    return Rat.atom(("elem", attr))


class Tracer:
    def __init__(self, fn, block, env0=None, elem_name="elem", skip_asserts=True, opaque_calls=None, month_classes=False, iterations=1,
                 elem_attrs=None, primitives=()):
        self.primitives = set(primitives)   # functions the rules address by name: never inlined as wrappers
        self.month_classes = month_classes
        self.iterations = iterations
        self.elem_attrs = dict(elem_attrs or {})
        self.fn, self.block, self.env0, self.elem_name = fn, block, dict(env0 or {}), elem_name
        self.skip_asserts = skip_asserts
        self.opaque_calls = opaque_calls  # predicate(dotted) -> bool ; default: everything that is not a pure builtin

    # -------------------------------------------------------------------------------------------------------------
    def run(self):
        """-> list of (decisions, events, env, interp)"""
        out = []

        def runit(it):
            events = []
            state = {"pass": 0, "elemvar": None}

            def arity_of(node):
                p = getattr(node, "_parent", None)
                if isinstance(p, ast.Assign) and p.value is node and isinstance(p.targets[0], (ast.Tuple, ast.List)):
                    return len(p.targets[0].elts)
                return None

            def hook(interp, d, a, kw, node):
                f = node.func
                # element.attr.append(v) / element.method(...)
                if isinstance(f, ast.Attribute):
                    base = f.value
                    ev = state["elemvar"]
                    if ev is not None and isinstance(base, ast.Attribute) and isinstance(base.value, ast.Name) and base.value.id == ev and f.attr in (
                            "append", "extend"):
                        e_ = Event("append", base.attr, a, kw, node, True, state["pass"])
                        e_.iter = state.get("iter", 0)
                        events.append(e_)
                        return None
                    if ev is not None and isinstance(base, ast.Name) and base.id == ev:
                        recv = getattr(interp.call_env.get(ev), "name", "elem")
                        e_ = Event("elem-call", f.attr, a, kw, node, True, state["pass"])
                        e_.iter = state.get("iter", 0)
                        e_.recv = recv
                        events.append(e_)
                        n = arity_of(node)
                        tag = f"elemcall:{f.attr}" if recv == "elem" else f"elemcall:{recv}.{f.attr}"
                        if a or kw:
                            # the same method called with other arguments is another value
                            argtxt = ",".join([canon(x) for x in a] + [f"{k_}={canon(v_)}" for k_, v_ in sorted(kw.items())])
                            if not all(isinstance(x, Path) for x in a) or kw:
                                tag += "(" + argtxt + ")"
                        e_.tag = tag
                        if n:
                            return tuple(Path((f"{tag}#{k}",)) for k in range(n))
                        return Path((tag,))
                    # obj.attr.append(v) on another object (country_object.homekill_hours_budget.append(...))
                    if f.attr == "append" and isinstance(base, ast.Attribute):
                        nm = dotted(base) or norm_src(base)
                        try:
                            owner = interp.eval(base.value, interp.call_env)
                            if isinstance(owner, Path):
                                nm = ".".join(str(x) for x in owner.parts) + "." + base.attr
                        except Unsupported:
                            pass
                        events.append(Event("append", nm, a, kw, node, False, state["pass"]))
                        return None
                if d in ("print", "len", "range", "str", "int", "float", "isinstance", "min", "max", "abs", "round", "sum", "list", "dict", "enumerate", "zip"):
                    return NotImplemented
                if d and (d.startswith("np.") or d.startswith("math.")):
                    events.append(Event("call", d, a, kw, node, False, state["pass"]))
                    return Path((f"ret:{d}@{len(events)}",))
                name = d or norm_src(f)
                short = name.split(".")[-1]
                if self._pure_selector(interp, d):
                    return NotImplemented   # a repository function that only reads its arguments and returns: followed by the interpreter
                wrapped = self._wrapper(interp, d, a, kw)
                if wrapped is not None:
                    # a repository function that only passes the element on to other functions: its body is part of this pass
                    callee, elem_param = wrapped
                    params = [x.arg for x in callee.args.args]
                    cenv = dict(zip(params, a))
                    cenv.update(kw)
                    prev = state["elemvar"]
                    state["elemvar"] = elem_param
                    state["depth"] = state.get("depth", 0) + 1
                    try:
                        self._exec(interp, callee.body, cenv, events, state)
                        rv = None
                    except _Return as r_:
                        rv = r_.value
                        if events and events[-1].kind == "return":
                            events.pop()   # the wrapper's own return is not an exit of the traced block
                    finally:
                        state["elemvar"] = prev
                        state["depth"] -= 1
                    return rv
                events.append(Event("call", short, a, kw, node, False, state["pass"]))
                n = arity_of(node)
                if n:
                    return tuple(ret_atom(short, k) for k in range(n))
                return ret_atom(short)

            it.call_hook = hook
            env = dict(self.env0)
            try:
                self._exec(it, self.block, env, events, state)
            except _Return:
                pass
            return events, env

        try:
            leaves = explore(runit, month_classes=self.month_classes)
        except Unsupported as e:
            raise
        for mc, dec, res, it in leaves:
            if isinstance(res, Abort):
                continue
            events, env = res
            d2 = dict(dec)
            if mc is not None:
                d2["@months"] = str(mc)
            out.append((d2, events, env, it))
        return out

    # -------------------------------------------------------------------------------------------------------------
    def _exec(self, it, stmts, env, events, state):
        for st in stmts:
            if isinstance(st, ast.Assert) and self.skip_asserts:
                continue
            if isinstance(st, ast.Expr) and isinstance(st.value, ast.Constant):
                continue
            if isinstance(st, (ast.For, ast.AsyncFor)) and self._is_collection_loop(it, st, env):
                state["pass"] += 1
                prev = state["elemvar"]
                if isinstance(st.target, ast.Name):
                    var, others = st.target.id, []
                else:  # `for key, x in d.items()`: the last name is the element
                    names_ = [e_.id for e_ in st.target.elts]
                    var, others = names_[-1], names_[:-1]
                state["elemvar"] = var
                env2 = env  # same scope (Python loops do not open a scope)
                saved = env.get(var, None)
                events.append(Event("pass-begin", norm_src(st.iter), [], {}, st, False, state["pass"]))
                for k in range(self.iterations):
                    elem = ElemObj(self.elem_name if k == 0 else f"{self.elem_name}{k + 1}")
                    elem.attrs.update(self.elem_attrs)
                    env[var] = elem
                    for ov_ in others:
                        env[ov_] = Opaque("key-of-" + elem.name)
                    state["iter"] = k
                    try:
                        self._exec(it, st.body, env2, events, state)
                    except _Continue:
                        events.append(Event("continue", "", [], {}, st, False, state["pass"]))
                    except _Break:
                        events.append(Event("break", "", [], {}, st, False, state["pass"]))
                        break
                events.append(Event("pass-end", norm_src(st.iter), [], {}, st, False, state["pass"]))
                state["elemvar"] = prev
                if saved is not None:
                    env[var] = saved
                continue
            if isinstance(st, ast.Assign) and len(st.targets) == 1 and self._foreign_store(it, st.targets[0], env):
                val = it.eval(st.value, env)
                t = st.targets[0]
                ev = Event("store", norm_src(t.value) if isinstance(t, ast.Subscript) else norm_src(t), [self._key(it, t, env), val], {}, st,
                           self._on_elem(t, state), state["pass"])
                try:
                    ev.base = it.eval(t.value, env)
                except Unsupported:
                    ev.base = None
                events.append(ev)
                continue
            if isinstance(st, ast.AugAssign) and self._foreign_store(it, st.target, env):
                # x.attr[k] op= v on an object that is not modelled: the store of (old op v), as an event
                import copy as _copy
                load = _copy.copy(st.target)
                load.ctx = ast.Load()
                try:
                    old = it.eval(load, env)
                    val = it.binop(st.op, old, it.eval(st.value, env), st)
                except Unsupported:
                    val = Opaque("augmented:" + norm_src(st.target))
                t = st.target
                ev = Event("store", norm_src(t.value) if isinstance(t, ast.Subscript) else norm_src(t), [self._key(it, t, env), val], {}, st,
                           self._on_elem(t, state), state["pass"])
                try:
                    ev.base = it.eval(t.value, env)
                except Unsupported:
                    ev.base = None
                events.append(ev)
                continue
            if isinstance(st, ast.Return):
                val = it.eval(st.value, env) if st.value is not None else None
                events.append(Event("return", "", [val], {}, st, False, state["pass"]))
                raise _Return(val)
            if isinstance(st, ast.If):
                if it.truth(it.eval(st.test, env), st.test):
                    self._exec(it, st.body, env, events, state)
                else:
                    self._exec(it, st.orelse, env, events, state)
                continue
            it.exec(st, env)

    _BUILTIN_OK = ("len", "min", "max", "abs", "round", "float", "int", "str", "bool", "isinstance", "range", "enumerate", "zip", "sum", "tuple", "list")

    def _pure_selector(self, interp, d):
        """the call resolves to a repository function without self whose body only reads: no stores to attributes/subscripts, no calls
        other than a few builtins, no loops other than over names/literals, no global/nonlocal"""
        res = getattr(type(interp), "resolver", None)
        if not d or res is None:
            return False
        callee = res(d) or res(d.split(".")[-1])
        if callee is None or callee is self.fn or callee.name in self.primitives:
            return False
        for n in ast.walk(callee):
            if isinstance(n, (ast.Global, ast.Nonlocal, ast.While, ast.With, ast.Try, ast.Yield, ast.YieldFrom, ast.Lambda, ast.AugAssign, ast.Delete)):
                return False
            if isinstance(n, ast.Call) and not (isinstance(n.func, ast.Name) and n.func.id in self._BUILTIN_OK):
                return False
            if isinstance(n, (ast.Attribute, ast.Subscript)) and isinstance(n.ctx, (ast.Store, ast.Del)):
                return False
            if isinstance(n, ast.FunctionDef) and n is not callee:
                return False
        return any(isinstance(n, ast.Return) and n.value is not None for n in ast.walk(callee))

    def _wrapper(self, interp, d, a, kw):
        """(FunctionDef, element parameter) when the call passes the current element to a repository function whose body hands that
        same parameter on to further calls (an orchestrating helper such as 'run the month-end steps for this animal'); else None"""
        res = getattr(type(interp), "resolver", None)
        if not d or res is None or kw:
            return None
        callee = res(d) or res(d.split(".")[-1])
        if callee is None or callee is self.fn or callee.name in self.primitives:
            return None
        params = [x.arg for x in callee.args.args]
        if len(params) != len(a) or callee.args.vararg or callee.args.kwarg:
            return None
        elems = [p_ for p_, v_ in zip(params, a) if isinstance(v_, ElemObj)]
        if not elems:
            # no element handed over: a function that runs whole passes itself - a loop over one of its parameters (the collection) whose
            # body passes the loop variable on to repository functions or appends to its lists
            for lp in [n for n in ast.walk(callee) if isinstance(n, ast.For)]:
                it_ = lp.iter
                if isinstance(it_, ast.Call) and isinstance(it_.func, ast.Attribute) and it_.func.attr in ("values", "items") and not it_.args:
                    it_ = it_.func.value
                if isinstance(it_, ast.Name) and it_.id in params and isinstance(dict(zip(params, a)).get(it_.id), (Path, Opaque)):
                    tv = lp.target.elts[-1] if isinstance(lp.target, ast.Tuple) else lp.target
                    if isinstance(tv, ast.Name) and any(
                            isinstance(c, ast.Call) and any(isinstance(x, ast.Name) and x.id == tv.id for x in c.args) and (
                                res(dotted(c.func) or "") is not None or res((dotted(c.func) or "").split(".")[-1]) is not None)
                            for c in ast.walk(lp)):
                        return (callee, None)
            return None
        if len(elems) != 1:
            return None
        ep = elems[0]
        forwards = 0
        for c in ast.walk(callee):
            if isinstance(c, ast.Call) and c is not callee and any(isinstance(x, ast.Name) and x.id == ep for x in c.args):
                inner = dotted(c.func) or ""
                if res(inner) is not None or res(inner.split(".")[-1]) is not None:
                    forwards += 1
        return (callee, ep) if forwards >= 2 else None

    def _on_elem(self, t, state):
        base = t
        while isinstance(base, (ast.Subscript, ast.Attribute)):
            base = base.value
        return isinstance(base, ast.Name) and base.id == state["elemvar"]

    def _key(self, it, t, env):
        if isinstance(t, ast.Subscript):
            try:
                return it.eval(t.slice, env)
            except Unsupported:
                return Opaque(norm_src(t.slice))
        return None

    def _foreign_store(self, it, t, env):
        """subscript/attribute store whose base is not a local dict/list literal: recorded as an event instead of executed"""
        if isinstance(t, ast.Subscript):
            base = t.value
            if isinstance(base, ast.Name) and isinstance(env.get(base.id), (PDict, PList)):
                return False
            return True
        if isinstance(t, ast.Attribute):
            base = t.value
            if isinstance(base, ast.Name) and isinstance(env.get(base.id), Obj) and not isinstance(env.get(base.id), ElemObj):
                return False
            return True
        return False

    def _is_collection_loop(self, it, st, env):
        if not (isinstance(st.target, ast.Name) or (isinstance(st.target, (ast.Tuple, ast.List)) and all(
                isinstance(e_, ast.Name) for e_ in st.target.elts))):
            return False
        if isinstance(st.iter, ast.Call) and isinstance(st.iter.func, ast.Attribute) and st.iter.func.attr in ("items", "values", "keys"):
            return True
        if isinstance(st.iter, ast.Call) and dotted(st.iter.func) in ("range", "enumerate", "zip"):
            return False
        try:
            v = it.eval(st.iter, env)
        except Unsupported:
            return True
        return isinstance(v, (Path, Opaque)) or (isinstance(v, Rat) and not v.is_const())


class ElemObj(Obj):
    """generic element of a collection: attribute reads are atoms <elem.attr>; `attr[-1]` reads are atoms <elem.attr[-1]>"""

    def __init__(self, name="elem"):
        super().__init__(None, {}, name)


def install_elem_semantics(it):
    """attribute reads of an ElemObj -> Path(elem, attr) (so that comparisons fork and dictionary keys work)"""
    orig = it.getattr

    def getattr_(obj, attr, node):
        if isinstance(obj, ElemObj):
            if attr in obj.attrs:
                return obj.attrs[attr]
            return Path((obj.name, attr))
        return orig(obj, attr, node)

    it.getattr = getattr_


def trace_block(fn, block, env0=None, month_classes=False, iterations=1, elem_attrs=None, primitives=()):
    t = Tracer(fn, block, env0, month_classes=month_classes, iterations=iterations, elem_attrs=elem_attrs, primitives=primitives)
    # ElemObj attribute semantics are installed per interpreter inside explore: wrap run
    orig_run = t.run

    def run():
        import allfedsa.symx as sx
        old = sx.Interp.getattr

        def patched(self, obj, attr, node):
            if isinstance(obj, ElemObj):
                if attr in obj.attrs:
                    return obj.attrs[attr]
                return Path((obj.name, attr))
            return old(self, obj, attr, node)

        old_gi = sx.Interp.getitem

        def patched_gi(self, obj, key, node):
            # result k of a call whose tuple was kept whole first: `t = f(x); a = t[0]` reads like `a, b = f(x)`
            if isinstance(obj, Path) and len(obj.parts) == 1 and obj.idx is None and isinstance(obj.parts[0], str) \
                    and obj.parts[0].startswith(("ret:", "elemcall:")) and "#" not in obj.parts[0].split("(")[0] and isinstance(key, Rat) and key.is_const() \
                    and key.const_value().denominator == 1 and key.const_value() >= 0:
                return Path((f"{obj.parts[0]}#{int(key.const_value())}",))
            return old_gi(self, obj, key, node)

        sx.Interp.getattr = patched
        sx.Interp.getitem = patched_gi
        try:
            return orig_run()
        finally:
            sx.Interp.getattr = old
            sx.Interp.getitem = old_gi

    return run()


def tags(value, it=None):
    """first path components (`ret:calculate_births#0`, `elem`, ...) of every atom in an abstract value, with the attribute chain:
    -> set of dotted strings such as 'ret:feed_animals#0.kcals', 'elem.animal_type'"""
    from .rat import K
    out = set()

    def walk(v):
        if isinstance(v, Path):
            out.add(".".join(str(p) for p in v.parts))
        elif isinstance(v, Rat):
            for a in v.atoms():
                if isinstance(a, K):
                    out.add(".".join(str(p) for p in a.path))
                elif isinstance(a, tuple):
                    out.add(".".join(str(p) for p in a))
        elif isinstance(v, (tuple, list)):
            for x in v:
                walk(x)
        elif isinstance(v, PList):
            for x in v.items:
                walk(x)

    walk(value)
    return out


def mentions(value, tag):
    return any(t == tag or t.startswith(tag + ".") for t in tags(value))
