"""C06 — herd head-count ledger balances every month (one month-step; the 120-month trajectory is not analysed).

  C06.LEDGER    end = start + additive - (natural deaths + retirements) - actual slaughter, then - (starvation deaths +
                healthy home-kill + starving home-kill), each followed by a clamp at zero; the slaughter actually applied is
                0, herd-minus-target or the allocated rate, never above the allocation, and never takes the herd below target
  C06.RECORD    every term of the ledger is the value recorded in the corresponding per-month list in the same iteration
  C06.XFER      animals retired from a dairy herd + its surviving male calves = animals added to the same species' meat herd
  C06.SLAUGHTER hours: rate = min(need, remaining)/hours-per-head, remaining reduced by what was applied and asserted >= 0,
                budget = sum over the size class of hours x baseline slaughter, recomputed every month and threaded per class
"""
from __future__ import annotations

import ast

from .core import AnalysisError, loc, norm_src, walk_no_nested, dotted, str_const
from .symx import Interp, Obj, Path, PList, PDict, Unsupported, explore, Abort
from .rat import Rat
from . import herd
from .trace import tags
from .c07 import facts_from, nonneg

ANIM = "src/food_system/animal_populations.py"


def run(index, rep):
    rep.guard(state6, index, rep)
    rep.guard(ledger, index, rep)
    rep.guard(record, index, rep)
    rep.guard(xfer, index, rep)
    rep.guard(slaughter, index, rep)


def state6(index, rep):
    from .memo import hidden_state_rules
    hidden_state_rules(index, rep, "C06.STATE", [ANIM], "a month's births, deaths, transfers and slaughter")


def ledger(index, rep):
    rule = "C06.LEDGER"
    cls = index.cls(ANIM, "AnimalPopulation")
    fn = index.func(ANIM, "AnimalPopulation.calculate_animal_population")
    cur, od, add, T, r = (Rat.atom((n,)) for n in ("start", "deaths_and_retirements", "additive", "target", "allocated_rate"))
    one = Rat.const(1)

    def runit(it):
        it.classes = {"AnimalPopulation": cls}
        animal = Obj(None, {"current_population": cur, "target_population_head": T}, "animal")
        from .core import bind_named
        a_, k_ = bind_named(fn, [("animal", animal), ("country_object", Path(("country",))), ("new_additive_animals_month", add),
                                 ("new_other_animal_death", od), ("new_slaughter_rate", r)], skip_first=False, optional=("country_object",))
        res = it.call_function(fn, a_, k_, None)
        return res, animal

    try:
        envs = explore(runit, month_classes=False)
    except Unsupported as e:
        raise AnalysisError(f"calculate_animal_population outside the analysed fragment: {e}")
    n = 0
    pre = cur - od + add
    for _, dec, res, it in envs:
        if isinstance(res, Abort):
            continue
        actual, animal = res
        actual = it.to_rat(actual)
        end = it.to_rat(animal.attrs["current_population"])
        facts = facts_from(it, dec) + [(T, False), (r, False)]
        leaf = ",".join(f"{'T' if v else 'F'}" for k, v in dec.items() if k in it.pred_exprs)
        n += 1
        clamped_pop = end.is_zero() and not (pre - actual).is_zero() and actual.is_zero() and any(
            e == (Rat.const(0) - (pre - a)) for (e, s) in facts_from(it, dec) for a in (Rat.const(0), pre - T, r))
        if end.is_zero() and actual.is_zero() and not (pre.is_zero()):
            # the 'population below zero' clamp: end = 0, slaughter = 0
            ok = any(e == Rat.const(0) - (pre - a) for (e, s) in facts_from(it, dec) for a in (Rat.const(0), pre - T, r))
            rep.check(ok, rule, f"clamp:population<0 -> 0 [{leaf}]", "the herd is set to zero on a path that does not establish that it was negative",
                      loc=loc(ANIM, fn))
            # the books of that month say "slaughter 0": the ledger allows end = 0 only when start + additive - deaths - 0 would be negative.
            # (paths on which the clamp cannot fire at all - e.g. slaughter trimmed to herd - target with target >= 0 - are infeasible)
            from .rat import feasible
            neg_op = {"<": ">=", "<=": ">", ">": "<=", ">=": "<", "==": "!=", "!=": "=="}
            cons = [(it.pred_exprs[k][0], it.pred_exprs[k][1] if v else neg_op[it.pred_exprs[k][1]]) for k, v in dec.items() if k in it.pred_exprs]
            cons += [(T, ">="), (r, ">="), (cur, ">="), (od, ">="), (add, ">=")]
            rep.check(not feasible(cons + [(pre, ">")]), rule, f"clamp only when the unslaughtered herd would be negative [{leaf}]",
                      "the herd can be wiped to zero with slaughter recorded as 0 although start + additive - deaths is positive: animals vanish "
                      "from the ledger (planned slaughter can exceed the animals available on this path)", loc=loc(ANIM, fn))
            continue
        rep.check(end == pre - actual, rule, f"end = start + additive - deaths - slaughter [{leaf}]",
                  f"the head count after the slaughter step is {end}, not start + additive - (deaths + retirements) - slaughter applied",
                  loc=loc(ANIM, fn))
        cands = [Rat.const(0), pre - T, r]
        rep.check(any(actual == c for c in cands), rule, f"slaughter applied in {{0, herd - target, allocated}} [{leaf}]",
                  f"slaughter applied ({actual}) is none of 0, herd - target, the allocated rate", loc=loc(ANIM, fn))
        rep.check(nonneg(actual, facts, [one]), rule, f"slaughter applied >= 0 [{leaf}]", f"slaughter applied ({actual}) can be negative", loc=loc(ANIM, fn))
        rep.check(nonneg(r - actual, facts, [one]), rule, f"slaughter applied <= allocated [{leaf}]",
                  f"more animals are slaughtered ({actual}) than the labour allocation allows ({r})", loc=loc(ANIM, fn))
        if not actual.is_zero():
            rep.check(nonneg(end - T, facts, [one]), rule, f"herd not taken below target [{leaf}]",
                      f"slaughter takes the herd below its target size (end - target = {end - T})", loc=loc(ANIM, fn))
            rep.check(nonneg(pre - actual, facts + [(T, False)], [one]) or nonneg(end, facts, [one]), rule, f"slaughter <= animals available [{leaf}]",
                      "slaughter can exceed the animals available", loc=loc(ANIM, fn))
    if n < 4:
        raise AnalysisError(f"calculate_animal_population: only {n} leaves")
    # final step
    ff = index.func(ANIM, "AnimalPopulation.calculate_final_population")
    sd, hh, hs = (Rat.atom((n_,)) for n_ in ("starvation_deaths", "homekill_healthy", "homekill_starving"))

    def runf(it):
        animal = Obj(None, {"current_population": cur, "other_death_starving": PList([sd]), "homekill_healthy_this_month": PList([hh]),
                            "homekill_starving_this_month": PList([hs])}, "animal")
        it.call_function(ff, [animal], {}, None)
        return animal

    # list[-1] on a literal one-element list
    try:
        envs = explore(runf, month_classes=False)
    except Unsupported as e:
        raise AnalysisError(f"calculate_final_population outside the analysed fragment: {e}")
    m = 0
    for _, dec, animal, it in envs:
        if isinstance(animal, Abort):
            continue
        m += 1
        end = it.to_rat(animal.attrs["current_population"])
        want = cur - (sd + hh + hs)
        neg = any(e == Rat.const(0) - want for (e, s) in facts_from(it, dec))   # this path knows herd - losses < 0 (or <= 0: then 0 is the same value)
        if neg:
            rep.check(end.is_zero(), rule, "final: clamp at zero", "a negative herd is not clamped to zero", loc=loc(ANIM, ff))
        else:
            rep.check(end == want, rule, "final: end = herd - starvation deaths - healthy home-kill - starving home-kill",
                      f"final head count is {end}", loc=loc(ANIM, ff))
    if m != 2:
        raise AnalysisError(f"calculate_final_population: {m} leaves, expected 2")
    rep.require_min(rule, 14)


def _ev(events, kind, name=None, pass_no=None):
    return [e for e in events if e.kind == kind and (name is None or e.name == name) and (pass_no is None or e.pass_no == pass_no)]


def _is(value, tag):
    """the abstract value is exactly the traced result `tag` (e.g. 'ret:calculate_other_deaths', 'elem', 'P0')"""
    if isinstance(value, Obj):
        return value.name == tag
    return isinstance(value, Path) and value.idx is None and ".".join(str(p) for p in value.parts) == tag


class Over:
    """one obligation over all leaves of a trace: holds iff it holds on every leaf; the first failing leaf is reported"""

    def __init__(self, rep, rule, where_loc):
        self.rep, self.rule, self.loc = rep, rule, where_loc
        self.state = {}

    def leaf(self, construct, ok, what, dec, detail=None):
        st = self.state.setdefault(construct, {"n": 0, "bad": None, "what": what})
        st["n"] += 1
        if not ok and st["bad"] is None:
            st["bad"] = (", ".join(f"{k[:40]}={'T' if v is True else 'F' if v is False else v}" for k, v in dec.items()), detail)

    def done(self):
        for construct, st in self.state.items():
            bad = st["bad"]
            self.rep.check(bad is None, self.rule, f"{construct} (on all {st['n']} paths)",
                           st["what"] + (f" - e.g. when {bad[0]}" if bad else ""), loc=self.loc, detail=bad[1] if bad else None)


def record(index, rep):
    """each ledger term is the value recorded for the month - decided on provenance traces (trace.py), so the names of the locals
    that carry the values do not matter"""
    rule = "C06.RECORD"
    fn, leaves = herd.function_trace(index, "AnimalPopulation.calculate_change_in_population")
    if len(fn.args.args) != 4:
        raise AnalysisError("calculate_change_in_population: signature changed")
    from .core import pos_of
    cap = index.func(ANIM, "AnimalPopulation.calculate_animal_population")
    i_an, i_add, i_dead, i_rate = (pos_of(cap, n_, i_, 5, method=False) for n_, i_ in (
        ("animal", 0), ("new_additive_animals_month", 2), ("new_other_animal_death", 3), ("new_slaughter_rate", 4)))
    if None in (i_an, i_add, i_dead, i_rate):
        raise AnalysisError(f"calculate_animal_population: parameters changed: {[a.arg for a in cap.args.args]}")
    ov = Over(rep, rule, loc(ANIM, fn))
    for dec, ev, env, it in leaves:
        pop = _ev(ev, "call", "calculate_animal_population")
        od = _ev(ev, "call", "calculate_other_deaths")
        sr = _ev(ev, "call", "calculate_slaughter_rate")
        app = {e.name: e for e in _ev(ev, "append")}
        ok = len(pop) == 1 and "P0.slaughter" in app and _is(app["P0.slaughter"].args[0], "ret:calculate_animal_population") and \
            ev.index(app["P0.slaughter"]) > ev.index(pop[0])
        ov.leaf("slaughter recorded = slaughter applied", ok, "the slaughter recorded for the month is not the value calculate_animal_population actually applied (e.g. the allocated rate "
                  "before the target/zero clamps)", dec)
        if len(pop) == 1 and len(od) == 1:
            a = pop[0].args
            milk = herd.dec_true(dec, "animal_function", "milk")
            deaths = it.to_rat(a[i_dead]) if len(a) > i_dead else None
            natural = it.to_rat(Path(("ret:calculate_other_deaths",)))
            retire = it.to_rat(Path(("P0", "retiring_milk_animals", "[]"), it.index_of(Rat.const(-1)))) if milk else Rat.const(0)
            okd = deaths is not None and deaths == natural + retire and "P0.other_death_causes_other_than_starving" in app and \
                _is(app["P0.other_death_causes_other_than_starving"].args[0], "ret:calculate_other_deaths") and _is(a[i_add], "P2") and _is(a[i_an], "P0")
            ov.leaf("natural deaths recorded = natural deaths applied (+ retirements of a dairy herd)", okd, "the deaths subtracted from the herd are not recorded natural deaths + this month's recorded retirements (dairy herds only), or the "
                      "additive term is not the caller's births + transfers", dec, detail=str(deaths))
            oks = len(sr) == 1 and _is(a[i_rate], "ret:calculate_slaughter_rate") if len(a) > i_rate else False
            ov.leaf("slaughter applied starts from the allocated rate", oks, "calculate_animal_population does not receive the rate calculate_slaughter_rate allocated", dec)
    if len(leaves) < 2:
        raise AnalysisError("calculate_change_in_population: expected dairy and non-dairy paths")
    # one generic month of main()
    ov.done()
    main, ml, mleaves = herd.month_trace(index)
    ov = Over(rep, rule, loc(ANIM, ml))
    for dec, ev, env, it in mleaves:
        births = _ev(ev, "call", "calculate_additive_births")
        okb = len(births) == 1 and _is(births[0].args[0], "elem")
        p = births[0].pass_no if okb else None
        rec = [e for e in _ev(ev, "append", "births_animals_month") if e.pass_no == p]
        okb = okb and len(rec) == 1 and _is(rec[0].args[0], "ret:calculate_additive_births#0")
        ov.leaf("births recorded = births computed for this animal and month", okb, "the births appended to births_animals_month are not result 0 of the births routine for the same animal", dec)
        step = _ev(ev, "call", "calculate_change_in_population")
        oks = len(step) == 1 and len(step[0].args) == 4 and _is(step[0].args[0], "elem")
        if oks:
            add = it.to_rat(step[0].args[2])
            b0 = it.to_rat(Path(("ret:calculate_additive_births#0",)))
            rest = add - b0
            oks = not any(t.startswith("ret:calculate_additive_births#0") for t in tags(rest))
        ov.leaf("births applied = births recorded (coefficient 1)", oks, "the additive term handed to the population step does not contain this month's recorded births exactly once", dec)
        # month-end pass: every record the final step reads is appended before it, the final step is the last call of its pass
        fin = _ev(ev, "call", "calculate_final_population")
        okf = len(fin) == 1 and _is(fin[0].args[0], "elem")
        if okf:
            pf = fin[0].pass_no
            pend = [e for e in ev if e.kind == "pass-end" and e.pass_no == pf]
            stop = ev.index(pend[0]) if pend else len(ev)
            later = [e for e in ev[ev.index(fin[0]) + 1: stop] if e.kind in ("call", "append", "elem-call")]
            need = ["other_death_starving", "other_death_total", "total_homekill_this_month"]
            before = {e.name for e in _ev(ev, "append") if e.pass_no == pf and ev.index(e) < ev.index(fin[0])}
            hk = [e.name for e in ev if e.pass_no == pf and e.kind == "call" and ev.index(e) < ev.index(fin[0])]
            okf = not later and all(n_ in before for n_ in need) and "calculate_healthy_homekill_head" in hk and "calculate_starving_homekill_head" in hk
        ov.leaf("final step reads this month's home-kill and starvation deaths", okf,
                "calculate_final_population does not run last in its pass, after this month's home-kill and starvation deaths were recorded", dec)
        endrec = _ev(ev, "call", "appened_current_populations")
        okp = len(endrec) == 1 and ev.index(endrec[0]) == len(ev) - 1 and fin and ev.index(endrec[0]) > ev.index(fin[0])
        ov.leaf("population recorded at month end", okp, "the end-of-month head count is not appended to the population list after all animals were updated", dec)
        setc = _ev(ev, "call", "set_current_populations")
        first_month = "[0,0]" in str(dec.get("@months"))
        okc = (not setc) if first_month else (len(setc) == 1 and all(ev.index(setc[0]) < ev.index(e) for e in ev if e.kind in ("call",) and e is not setc[0]))
        ov.leaf("month starts from last recorded head count", okc, "the month does not start from the last recorded head count", dec)
    ov.done()
    # no herd is skipped: no continue/break/return in the per-animal passes, and the final step is unconditional
    for lp in [s_ for s_ in ml.body if isinstance(s_, ast.For)]:
        exits = [n for st in lp.body for n in ([st] + list(walk_no_nested(st))) if isinstance(n, (ast.Continue, ast.Break, ast.Return))]
        rep.check(not exits, rule, f"per-animal pass at +{lp.lineno - ml.lineno}: no herd is skipped",
                  "a continue/break/return lets a herd skip part of the month's bookkeeping (line " + ", ".join(str(e.lineno) for e in exits[:3]) + "): "
                  "e.g. that month's recorded deaths and home-kill are never taken off the herd", loc=loc(ANIM, lp))
    fins = [c for c in ast.walk(ml) if isinstance(c, ast.Call) and (dotted(c.func) or "").endswith("calculate_final_population")]
    if len(fins) == 1:
        n = fins[0]
        cond = []
        while n is not None and n is not ml:
            if isinstance(n, (ast.If, ast.Try, ast.While)):
                cond.append(type(n).__name__)
            n = getattr(n, "_parent", None)
        rep.check(not cond, rule, "the final step is unconditional", "calculate_final_population runs only under a condition", loc=loc(ANIM, fins[0]))
    sc = index.func(ANIM, "AnimalPopulation.set_current_populations")
    lp = [s_ for s_ in sc.body if isinstance(s_, ast.For)]
    ok = bool(lp) and isinstance(lp[-1].target, ast.Name) and [norm_src(x) for x in lp[-1].body] == [
        f"{lp[-1].target.id}.current_population = {lp[-1].target.id}.population[-1]"]
    rep.check(ok, rule, "start = previous end", "start-of-month head count is not the previous month's end", loc=loc(ANIM, sc))
    rep.require_min(rule, 8)


def xfer(index, rep):
    rule = "C06.XFER"
    main, ml, mleaves = herd.month_trace(index)
    ov = Over(rep, rule, loc(ANIM, ml))
    retire = Path(("elemcall:retiring_milk_head_monthly",))
    for dec, ev, env, it in mleaves:
        dairy_fn = herd.dec_true(dec, "animal_function", "'milk'")          # the animal that WRITES the transfer (pass over dairy herds)
        milk_type = herd.dec_true(dec, "'milk' in", "animal_type")           # the animal that READS it: meat herds add, dairy herds subtract
        step = _ev(ev, "call", "calculate_change_in_population")
        births = _ev(ev, "call", "calculate_additive_births")
        if len(step) != 1 or len(births) != 1 or dairy_fn is None or milk_type is None:
            ov.leaf("month loop has one births call and one population step per animal", False,
                    "the month loop no longer makes one births call and one population step per animal (with the dairy tests)", dec)
            continue
        b0 = it.to_rat(Path(("ret:calculate_additive_births#0",)))
        b1 = it.to_rat(Path(("ret:calculate_additive_births#1",)))
        T = (it.to_rat(retire) + b1) if dairy_fn else Rat.const(0)   # what a dairy animal of the species stored this month
        add = it.to_rat(step[0].args[2])
        want_add = b0 if milk_type else b0 + T
        if add != want_add:
            # the hand-over may reach the receiving herd through state kept on the herd objects (set by a method of the species class that
            # the month loop calls on another herd) instead of the per-species table this rule follows: no verdict either way
            from .rat import K as _K6
            via = sorted({a_.path[1] for a_ in (add - b0).atoms() if isinstance(a_, _K6) and len(a_.path) == 2 and a_.path[0] == "elem"})
            sp_methods = index.methods(ANIM, "AnimalSpecies")
            loop_calls = {c_.func.attr for c_ in ast.walk(ml) if isinstance(c_, ast.Call) and isinstance(c_.func, ast.Attribute)}
            set_by = sorted({m_ for m_, f_ in sp_methods.items() if m_ in loop_calls and m_ != "__init__" for n_ in ast.walk(f_)
                             if isinstance(n_, ast.Attribute) and isinstance(n_.ctx, ast.Store) and n_.attr in via
                             and not (isinstance(n_.value, ast.Name) and n_.value.id == "self")})
            if via and set_by:
                raise AnalysisError(f"month loop outside the analysed fragment: the animals added to a herd are read from its attribute(s) {via}, "
                                    f"which AnimalSpecies.{', '.join(set_by)} sets on another herd object")
        ov.leaf("transfer out of a dairy herd = retirements + surviving male calves; the meat herd receives exactly that (+1 coefficient)",
                add == want_add, "the animals added to a meat herd are not its own births + (retiring dairy animals + surviving male calves) of its "
                "species, or a dairy herd's additive term is not its own births", dec, detail=f"additive {add}; expected {want_add}")
        rec = [e for e in _ev(ev, "append", "transfer_population")]
        okr = len(rec) == 1 and it.to_rat(rec[0].args[0]) == (-T if milk_type else T)
        ov.leaf("transfer recorded with the sign of the herd's side", okr,
                "transfer_population does not record +transfer for the receiving herd and -transfer for the dairy herd", dec)
        ret_rec = _ev(ev, "append", "retiring_milk_animals")
        okd = (len(ret_rec) == 1 and it.to_rat(ret_rec[0].args[0]) == it.to_rat(retire)) if dairy_fn else not ret_rec
        ov.leaf("dairy herd loses the same retirements", okd,
                "the retirements recorded (and then subtracted) for the dairy herd are not the retirements added to the meat herd "
                "(same retiring_milk_head_monthly() of the same animal, dairy herds only)", dec)
        tb = _ev(ev, "append", "transfer_births")
        okt = (len(tb) == 1 and it.to_rat(tb[0].args[0]) == b1) if dairy_fn else not tb
        ov.leaf("transferred calves recorded = calves transferred", okt, "transfer_births does not record result 1 of the births routine", dec)
        # reset each month: the first per-animal pass stores 0 under the species key before any transfer is written
        ok0 = not dairy_fn and not milk_type and add == b0 or dairy_fn or milk_type
        ov.leaf("transfer reset each month", ok0, "a meat herd of a species without a dairy herd this month still receives a transfer "
                "(the per-species transfer is not reset to 0 every month)", dec)
    ov.done()
    # the tables the additive term is read from (births per herd, transfer per species) are complete before the slaughter pass starts and are
    # not written during it: every herd of the pass reads what the dairy herd recorded, whichever of them is processed first
    from .core import args_by_ref_names, Inliner as _Inl6
    ccp = index.func(ANIM, "AnimalPopulation.calculate_change_in_population")
    # (the pass may sit in the month loop itself or in a helper the month loop calls: it is looked for where the step is called)
    host = ml
    step_calls = [c for c in ast.walk(ml) if isinstance(c, ast.Call) and (dotted(c.func) or "").endswith("calculate_change_in_population")]
    if not step_calls:
        for f_ in [x for x in ast.walk(index.module(ANIM)) if isinstance(x, ast.FunctionDef) and x is not ccp]:
            cs_ = [c for c in walk_no_nested(f_) if isinstance(c, ast.Call) and (dotted(c.func) or "").endswith("calculate_change_in_population")]
            if cs_:
                step_calls += cs_
                host = f_
    if len(step_calls) != 1:
        raise AnalysisError("month loop: expected one call of calculate_change_in_population")
    step_loop = None
    for f_ in ast.walk(host):
        if isinstance(f_, ast.For) and f_ is not ml and any(n_ is step_calls[0] for n_ in ast.walk(f_)):
            if step_loop is None or any(n_ is f_ for n_ in ast.walk(step_loop)):
                step_loop = f_          # the innermost loop around the call: the per-animal slaughter pass
    add_e = args_by_ref_names(step_calls[0], ccp, ["animal", "country_object", "new_additive_animals_month", "remaining_hours_this_size"], method=False)[2]
    tables = set()
    if add_e is not None and step_loop is not None:
        work, seen_n = [add_e], set()
        while work:
            d_ = work.pop()
            tables |= {n_.value.id for n_ in ast.walk(d_) if isinstance(n_, ast.Subscript) and isinstance(n_.value, ast.Name)}
            for n_ in ast.walk(d_):
                if isinstance(n_, ast.Name) and isinstance(n_.ctx, ast.Load) and n_.id not in seen_n:
                    seen_n.add(n_.id)
                    work += [s_.value for s_ in ast.walk(step_loop) if isinstance(s_, ast.Assign)
                             and any(isinstance(t_, ast.Name) and t_.id == n_.id for t_ in s_.targets)]
    rewrites = [s_ for s_ in ast.walk(step_loop) if isinstance(s_, (ast.Assign, ast.AugAssign)) for t_ in (s_.targets if isinstance(s_, ast.Assign) else [s_.target])
                if isinstance(t_, ast.Subscript) and isinstance(t_.value, ast.Name) and t_.value.id in tables] if step_loop is not None else []
    rep.check(bool(tables) and not rewrites, rule, "transfer and births tables are not rewritten during the slaughter pass",
              "a table the additive term is read from (" + ", ".join(sorted(tables)) + ") is written inside the slaughter pass: a herd processed later in the "
              "pass receives something else than the dairy herd recorded and lost (animals vanish or appear between the two herds)",
              loc=loc(ANIM, rewrites[0]) if rewrites else loc(ANIM, ml))
    cb = index.func(ANIM, "AnimalPopulation.calculate_births")
    it = Interp()
    p, app, br, tc = (Rat.atom((n_,)) for n_ in ("birthing", "per_pregnancy", "birth_ratio", "transfer_culling"))
    animal = Obj(None, {"pregnant_animals_birthing_this_month": PList([p]), "animals_per_pregnancy": app, "birth_ratio": br,
                        "transfer_culling_fraction": tc}, "animal")
    try:
        res = it.call_function(cb, [animal], {}, None)
    except Exception as e:
        raise AnalysisError(f"calculate_births outside the fragment: {e!r}")
    ok = isinstance(res, tuple) and len(res) == 2 and it.to_rat(res[0]) == p * app / br and \
        it.to_rat(res[1]) == p * app / br * (br - Rat.const(1)) * (Rat.const(1) - tc)
    rep.check(ok, rule, "births: own = birthing x per-pregnancy / ratio; transferred = own x (ratio-1) x (1 - calf culling)",
              "calculate_births no longer splits births into (kept in herd, surviving calves transferred) this way", loc=loc(ANIM, cb))
    rep.require_min(rule, 5)


def slaughter(index, rep):
    rule = "C06.SLAUGHTER"
    cls = index.cls(ANIM, "AnimalPopulation")
    fn = index.func(ANIM, "AnimalPopulation.calculate_slaughter_rate")
    base, last, hph, rem = (Rat.atom((n_,)) for n_ in ("baseline_slaughter", "last_slaughter", "hours_per_head", "remaining_hours"))

    def runit(it):
        it.classes = {"AnimalPopulation": cls}
        it._mins = {}

        def hook(interp, d, args, kwargs, node):
            if d == "min" and len(args) == 2:
                k = len(interp._mins)
                interp._mins[k] = (interp.to_rat(args[0]), interp.to_rat(args[1]))
                return Rat.atom(("MIN", k))
            return NotImplemented

        it.call_hook = hook
        animal = Obj(None, {"baseline_slaughter": base, "slaughter": PList([last]), "animal_slaughter_hours": hph}, "animal")
        from .core import bind_named
        a_, k_ = bind_named(fn, [("animal", animal), ("country_object", Path(("country",))), ("new_births_animals_month", Rat.atom(("b",))),
                                 ("new_other_animal_death", Rat.atom(("d",))), ("remaining_hours_this_size", rem)], skip_first=False,
                            optional=("country_object", "new_births_animals_month", "new_other_animal_death"))
        return it.call_function(fn, a_, k_, None)

    try:
        envs = explore(runit, month_classes=False)
    except Unsupported as e:
        raise AnalysisError(f"calculate_slaughter_rate outside the analysed fragment: {e}")
    n = 0
    for _, dec, res, it in envs:
        if isinstance(res, Abort):
            continue
        if res is None:
            rep.info(rule, "calculate_slaughter_rate returns None when the previous slaughter is NaN (the `return` sits inside the else arm)")
            continue
        n += 1
        res = it.to_rat(res)
        if res.is_zero():
            from .symx import leaf_implies
            ok = leaf_implies(it, dec, rem, "<=")     # this path established that no hours remain
            rep.check(ok, rule, "rate = 0 only when no hours remain", "the slaughter rate is zero on a path where hours remain", loc=loc(ANIM, fn))
            continue
        mins = [a for a in res.atoms() if isinstance(a, tuple) and a[0] == "MIN"]
        ok = len(mins) == 1 and res == Rat.atom(mins[0]) / hph
        prev = base if any("country.month" in k and v for k, v in dec.items()) else last
        if ok:
            a, b = it._mins[mins[0][1]]
            ok = {str(a), str(b)} == {str(prev * hph), str(rem)}
        rep.check(ok, rule, f"rate = min(previous slaughter x hours/head, remaining hours) / hours/head [{'month0' if prev == base else 'later'}]",
                  "the allocated slaughter rate is not limited by the hours remaining in the size class (labour capacity can be exceeded)",
                  loc=loc(ANIM, fn), detail=str(res))
    if n < 3:
        raise AnalysisError(f"calculate_slaughter_rate: {n} leaves")
    # the hours budget through one population step: what comes back = what came in - slaughter applied x hours per head, asserted >= 0
    cc, cleaves = herd.function_trace(index, "AnimalPopulation.calculate_change_in_population")
    ov = Over(rep, rule, loc(ANIM, cc))
    for dec, ev, env, it in cleaves:
        ret = _ev(ev, "return")
        sr = _ev(ev, "call", "calculate_slaughter_rate")
        applied = it.to_rat(Path(("ret:calculate_animal_population",)))
        hph = it.to_rat(Path(("P0", "animal_slaughter_hours")))
        okh = len(ret) == 1 and isinstance(ret[0].args[0], (Rat, Path)) and it.to_rat(ret[0].args[0]) == it.to_rat(Path(("P3",))) - applied * hph
        ov.leaf("hours left = hours given - slaughter applied x hours/head", okh,
                "the labour budget handed back is not the budget received minus slaughter applied x hours per head", dec,
                detail=str(ret[0].args[0]) if ret else None)
        from .core import pos_of as _pos
        i_rem = _pos(index.func(ANIM, "AnimalPopulation.calculate_slaughter_rate"), "remaining_hours_this_size", 4, 5, method=False)
        okr = len(sr) == 1 and i_rem is not None and len(sr[0].args) > i_rem and _is(sr[0].args[i_rem], "P3")
        ov.leaf("rate computed from the class's remaining hours", okr,
                "the slaughter rate is not computed from the remaining hours the caller handed in", dec)
    ov.done()
    from .core import bounds_in
    rets = [r for r in cc.body if isinstance(r, ast.Return)]
    rname = norm_src(rets[-1].value) if rets else "?"
    lower = [b for a_ in walk_no_nested(cc) if isinstance(a_, ast.Assert) for b in bounds_in(a_.test)
             if b[0] == "lower" and norm_src(b[1]) == rname and -1e-3 <= b[2] <= 0]
    rep.check(bool(lower), rule, "hours left asserted >= 0",
              "the remaining labour hours are no longer asserted to stay non-negative", loc=loc(ANIM, cc))
    hb = index.func(ANIM, "calculate_net_slaughter_hours_by_size")
    # evaluated on a small herd of mixed sizes: every class's budget is the sum of hours/head x baseline slaughter over its members
    sizes = ["small", "medium", "small", "large"]
    herd4 = [Obj(None, {"animal_size": sz, "animal_slaughter_hours": Rat.atom(("h", k_)), "baseline_slaughter": Rat.atom(("b", k_))}, f"a{k_}")
             for k_, sz in enumerate(sizes)]

    def run_b(itb):
        def hookb(interp, d, a, kw, node):
            if d == "sum" and len(a) == 1 and isinstance(a[0], (PList, tuple)):
                tot = Rat.const(0)
                for x in (a[0].items if isinstance(a[0], PList) else a[0]):
                    tot = tot + interp.to_rat(x)
                return tot
            return NotImplemented
        itb.call_hook = hookb
        return itb.call_function(hb, [PList(list(herd4))], {}, None)

    try:
        lb = [x for x in explore(run_b, month_classes=False) if not isinstance(x[2], Abort)]
    except Unsupported as e:
        raise AnalysisError(f"calculate_net_slaughter_hours_by_size outside the analysed fragment: {e}")
    okb = bool(lb)
    for _, dec_b, res_b, itb in lb:
        want_b = {sz: sum((Rat.atom(("h", k_)) * Rat.atom(("b", k_)) for k_, s_ in enumerate(sizes) if s_ == sz), Rat.const(0)) for sz in ("small", "medium", "large")}
        okb = okb and isinstance(res_b, PDict) and all(sz in res_b.d and itb.to_rat(res_b.d[sz]) == want_b[sz] for sz in want_b)
    rep.check(okb, rule, "budget = sum over the size class of hours/head x baseline slaughter",
              "the labour budget per size class is not the baseline capacity of that class", loc=loc(ANIM, hb))
    main, ml, mleaves = herd.month_trace(index)
    ov = Over(rep, rule, loc(ANIM, ml))
    for dec, ev, env, it in mleaves:
        bud = _ev(ev, "call", "calculate_net_slaughter_hours_by_size")
        step = _ev(ev, "call", "calculate_change_in_population")
        okb = len(bud) == 1 and len(step) == 1 and ev.index(bud[0]) < ev.index(step[0])
        ov.leaf("budget recomputed every month", okb, "the labour budget is not re-initialised inside the month loop, before the population steps", dec)
        st = [e for e in _ev(ev, "store") if e.base is not None and _is(e.base, "ret:calculate_net_slaughter_hours_by_size")]
        okt = okb and len(st) == 1 and _is(st[0].args[1], "ret:calculate_change_in_population") and isinstance(st[0].args[0], Path) and \
            ".".join(st[0].args[0].parts) == "elem.animal_size" and isinstance(step[0].args[3], Path) and \
            ".".join(str(x) for x in step[0].args[3].parts) == "ret:calculate_net_slaughter_hours_by_size.[elem.animal_size]"
        ov.leaf("remaining hours threaded per size class", okt,
                "what one species leaves of its size class's hours is not what the next species of the class gets (the step's result must be stored "
                "back under the animal's size, and the step must be given that entry)", dec)
    ov.done()
    rep.require_min(rule, 7)


def describe(rep):
    rep.explanation = (
        "Static analysis of one month-step of the herd simulation (animal_populations.py). C06.LEDGER: "
        "calculate_animal_population and calculate_final_population are abstractly evaluated on symbolic start head count, "
        "additive animals, deaths+retirements, target and allocated rate, forking on every guard; on each leaf the end head count is "
        "start + additive - deaths - slaughter applied (or the zero clamp under a guard that established negativity), the slaughter "
        "applied is 0, herd - target or the allocation, is >= 0, <= the allocation, and leaves the herd at or above target - all "
        "proved from the leaf's own guards. C06.RECORD: slot/def-use rules show that each ledger term is the value appended to the "
        "per-month list in the same iteration (slaughter = value returned by the population step; deaths; births; retirements; "
        "final step after this month's home-kill/starvation appends; population appended at month end; next month starts from it). "
        "C06.XFER: the only non-zero transfer is retirements + surviving male calves under the dairy guard, added with coefficient +1 "
        "to the same species' meat herd, the dairy herd subtracting the same retirements; births split symbolically verified. "
        "C06.SLAUGHTER: rate = min(previous slaughter x h, remaining)/h; hours used = applied x h subtracted and asserted >= 0; budget = "
        "class baseline capacity, recomputed monthly, threaded per class. The multi-month trajectory and data-dependent signs of flows "
        "are NOT decided."
    )
    rep.assumptions = ["target size and allocated rate are non-negative; hours per head positive"]
