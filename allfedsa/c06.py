"""C06 — herd head-count ledger balances every month (one month-step; the 120-month trajectory is not analysed).

  C06.LEDGER    end = start + additive - (natural deaths + retirements) - actual slaughter, then - (starvation deaths +
                healthy home-kill + starving home-kill), each followed by a clamp at zero; the slaughter actually applied is
                0, herd-minus-target or the allocated rate, never above the allocation, and never takes the herd below target
  C06.RECORD    every term of the ledger is the value recorded in the corresponding per-month list in the same iteration
  C06.XFER      animals retired from a dairy herd + its surviving male calves = animals added to the same species' meat herd
  C06.SLAUGHTER hours: rate = min(need, remaining)/hours-per-head, remaining reduced by what was applied and asserted >= 0,
                budget = sum over the size class of hours x baseline slaughter, recomputed every month and threaded per class
"""
from __future__ import annotations

import ast

from .core import AnalysisError, loc, norm_src, walk_no_nested, dotted, str_const
from .symx import Interp, Obj, Path, PList, PDict, Unsupported, explore, Abort
from .rat import Rat
from .c07 import facts_from, nonneg

ANIM = "src/food_system/animal_populations.py"


def run(index, rep):
    rep.guard(state6, index, rep)
    rep.guard(ledger, index, rep)
    rep.guard(record, index, rep)
    rep.guard(xfer, index, rep)
    rep.guard(slaughter, index, rep)


def state6(index, rep):
    from .memo import hidden_state_rules
    hidden_state_rules(index, rep, "C06.STATE", [ANIM], "a month's births, deaths, transfers and slaughter")


def ledger(index, rep):
    rule = "C06.LEDGER"
    cls = index.cls(ANIM, "AnimalPopulation")
    fn = index.func(ANIM, "AnimalPopulation.calculate_animal_population")
    cur, od, add, T, r = (Rat.atom((n,)) for n in ("start", "deaths_and_retirements", "additive", "target", "allocated_rate"))
    one = Rat.const(1)

    def runit(it):
        it.classes = {"AnimalPopulation": cls}
        animal = Obj(None, {"current_population": cur, "target_population_head": T}, "animal")
        res = it.call_function(fn, [animal, Path(("country",)), add, od, r], {}, None)
        return res, animal

    try:
        envs = explore(runit, month_classes=False)
    except Unsupported as e:
        raise AnalysisError(f"calculate_animal_population outside the analysed fragment: {e}")
    n = 0
    pre = cur - od + add
    for _, dec, res, it in envs:
        if isinstance(res, Abort):
            continue
        actual, animal = res
        actual = it.to_rat(actual)
        end = it.to_rat(animal.attrs["current_population"])
        facts = facts_from(it, dec) + [(T, False), (r, False)]
        leaf = ",".join(f"{'T' if v else 'F'}" for k, v in dec.items() if k in it.pred_exprs)
        n += 1
        clamped_pop = end.is_zero() and not (pre - actual).is_zero() and actual.is_zero() and any(
            e == (Rat.const(0) - (pre - a)) for (e, s) in facts_from(it, dec) for a in (Rat.const(0), pre - T, r))
        if end.is_zero() and actual.is_zero() and not (pre.is_zero()):
            # the 'population below zero' clamp: end = 0, slaughter = 0
            ok = any(e == Rat.const(0) - (pre - a) for (e, s) in facts_from(it, dec) for a in (Rat.const(0), pre - T, r))
            rep.check(ok, rule, f"clamp:population<0 -> 0 [{leaf}]", "the herd is set to zero on a path that does not establish that it was negative",
                      loc=loc(ANIM, fn))
            continue
        rep.check(end == pre - actual, rule, f"end = start + additive - deaths - slaughter [{leaf}]",
                  f"the head count after the slaughter step is {end}, not start + additive - (deaths + retirements) - slaughter applied",
                  loc=loc(ANIM, fn))
        cands = [Rat.const(0), pre - T, r]
        rep.check(any(actual == c for c in cands), rule, f"slaughter applied in {{0, herd - target, allocated}} [{leaf}]",
                  f"slaughter applied ({actual}) is none of 0, herd - target, the allocated rate", loc=loc(ANIM, fn))
        rep.check(nonneg(actual, facts, [one]), rule, f"slaughter applied >= 0 [{leaf}]", f"slaughter applied ({actual}) can be negative", loc=loc(ANIM, fn))
        rep.check(nonneg(r - actual, facts, [one]), rule, f"slaughter applied <= allocated [{leaf}]",
                  f"more animals are slaughtered ({actual}) than the labour allocation allows ({r})", loc=loc(ANIM, fn))
        if not actual.is_zero():
            rep.check(nonneg(end - T, facts, [one]), rule, f"herd not taken below target [{leaf}]",
                      f"slaughter takes the herd below its target size (end - target = {end - T})", loc=loc(ANIM, fn))
            rep.check(nonneg(pre - actual, facts + [(T, False)], [one]) or nonneg(end, facts, [one]), rule, f"slaughter <= animals available [{leaf}]",
                      "slaughter can exceed the animals available", loc=loc(ANIM, fn))
    if n < 4:
        raise AnalysisError(f"calculate_animal_population: only {n} leaves")
    # final step
    ff = index.func(ANIM, "AnimalPopulation.calculate_final_population")
    sd, hh, hs = (Rat.atom((n_,)) for n_ in ("starvation_deaths", "homekill_healthy", "homekill_starving"))

    def runf(it):
        animal = Obj(None, {"current_population": cur, "other_death_starving": PList([sd]), "homekill_healthy_this_month": PList([hh]),
                            "homekill_starving_this_month": PList([hs])}, "animal")
        it.call_function(ff, [animal], {}, None)
        return animal

    # list[-1] on a literal one-element list
    try:
        envs = explore(runf, month_classes=False)
    except Unsupported as e:
        raise AnalysisError(f"calculate_final_population outside the analysed fragment: {e}")
    m = 0
    for _, dec, animal, it in envs:
        if isinstance(animal, Abort):
            continue
        m += 1
        end = it.to_rat(animal.attrs["current_population"])
        want = cur - (sd + hh + hs)
        neg = any(e == Rat.const(0) - want and s for (e, s) in facts_from(it, dec))
        if neg:
            rep.check(end.is_zero(), rule, "final: clamp at zero", "a negative herd is not clamped to zero", loc=loc(ANIM, ff))
        else:
            rep.check(end == want, rule, "final: end = herd - starvation deaths - healthy home-kill - starving home-kill",
                      f"final head count is {end}", loc=loc(ANIM, ff))
    if m != 2:
        raise AnalysisError(f"calculate_final_population: {m} leaves, expected 2")
    rep.require_min(rule, 14)


def record(index, rep):
    rule = "C06.RECORD"
    cc = index.func(ANIM, "AnimalPopulation.calculate_change_in_population")
    body = cc.body
    asg = [(norm_src(s.targets[0]), s) for s in walk_no_nested(cc) if isinstance(s, ast.Assign) and len(s.targets) == 1]
    # the value appended to slaughter is the value RETURNED by calculate_animal_population
    cap = [s for n_, s in asg if isinstance(s.value, ast.Call) and dotted(s.value.func) == "AnimalPopulation.calculate_animal_population"]
    apps = {}
    for c in walk_no_nested(cc):
        if isinstance(c, ast.Call) and isinstance(c.func, ast.Attribute) and c.func.attr == "append" and dotted(c.func.value) and \
                dotted(c.func.value).startswith("animal."):
            apps[dotted(c.func.value)[7:]] = (norm_src(c.args[0]), c)
    ok = len(cap) == 1 and "slaughter" in apps and apps["slaughter"][0] == norm_src(cap[0].targets[0]) and apps["slaughter"][1].lineno > cap[0].lineno
    later = [s for n_, s in asg if cap and n_ == norm_src(cap[0].targets[0]) and s.lineno > cap[0].lineno]
    rep.check(ok and not later, rule, "slaughter recorded = slaughter applied",
              "the slaughter recorded for the month is not the value calculate_animal_population actually applied (e.g. the allocated rate "
              "before the target/zero clamps)", loc=loc(ANIM, cc))
    if cap:
        a = cap[0].value.args
        od = [s for n_, s in asg if isinstance(s.value, ast.Call) and dotted(s.value.func) == "AnimalPopulation.calculate_other_deaths"]
        ok = len(od) == 1 and norm_src(a[3]).replace(" ", "") == f"{norm_src(od[0].targets[0])}+retiring_animals" and \
            apps.get("other_death_causes_other_than_starving", ("",))[0] == norm_src(od[0].targets[0]) and norm_src(a[2]) == "new_additive_animals_month"
        rep.check(ok, rule, "natural deaths recorded = natural deaths applied (+ retirements)",
                  "the deaths subtracted from the herd are not recorded natural deaths + this month's retirements, or the additive term is not the "
                  "caller's births + transfers", loc=loc(ANIM, cc))
    ret = [s for s in walk_no_nested(cc) if isinstance(s, ast.If) and norm_src(s.test) == "animal.animal_function == 'milk'"]
    ok = len(ret) == 1 and norm_src(ret[0].body[0]) == "retiring_animals = animal.retiring_milk_animals[-1]" and \
        norm_src(ret[0].orelse[0]) == "retiring_animals = 0"
    rep.check(ok, rule, "retirements applied = retirements recorded (dairy only)", "retirements subtracted are not the last recorded retirements of a dairy herd",
              loc=loc(ANIM, cc))
    # main: births recorded = births applied; order of appends before the final step
    main = index.func(ANIM, "main")
    mloop = [s for s in main.body if isinstance(s, ast.For) and norm_src(s.iter) == "range(0, months_to_run)"]
    if len(mloop) != 1:
        raise AnalysisError("main: month loop not found")
    ml = mloop[0]
    txt = norm_src(ml)
    rep.check("births[animal.animal_type] = new_births" in txt and "animal.births_animals_month.append(new_births)" in txt and
              "new_additive_animals_month = births[animal.animal_type] + transfer_populations[animal.animal_species]" in txt and
              "new_additive_animals_month = births[animal.animal_type]" in txt, rule, "births recorded = births applied",
              "the births added to a herd are not the births recorded for it this month", loc=loc(ANIM, ml))
    rep.check("animal.retiring_milk_animals.append(animal.retiring_milk_head_monthly())" in txt, rule, "retirements recorded",
              "retirements are not recorded from retiring_milk_head_monthly()", loc=loc(ANIM, ml))
    # the per-animal loop that ends the month: appends come before calculate_final_population, which reads [-1]
    last = [s for s in ml.body if isinstance(s, ast.For) and "AnimalPopulation.calculate_final_population(animal)" in norm_src(s)]
    ok = len(last) == 1
    if ok:
        seq = [norm_src(s)[:70] for s in last[0].body]
        def pos(sub):
            for i, t in enumerate(seq):
                if sub in t:
                    return i
            return None
        need = ["calculate_healthy_homekill_head(animal", "calculate_starving_homekill_head(animal", "animal.other_death_starving.append(",
                "AnimalPopulation.calculate_final_population(animal)"]
        p = [pos(x) for x in need]
        ok = None not in p and p == sorted(p) and p[-1] == len(seq) - 1
    rep.check(ok, rule, "final step reads this month's home-kill and starvation deaths",
              "calculate_final_population does not run last, after this month's home-kill and starvation deaths were recorded", loc=loc(ANIM, ml))
    if len(last) == 1:
        exits = [n for st in last[0].body for n in ([st] + list(walk_no_nested(st))) if isinstance(n, (ast.Continue, ast.Break, ast.Return))]
        rep.check(not exits, rule, "every herd reaches the final step every month (no continue/break in the month-end loop)",
                  "a continue/break/return in the month-end per-animal loop (line " + ", ".join(str(e.lineno) for e in exits[:3]) + ") lets a herd skip "
                  "calculate_final_population: that month's recorded deaths and home-kill are never taken off the herd", loc=loc(ANIM, last[0]))
        cond = [st for st in last[0].body if isinstance(st, (ast.If, ast.Try, ast.While, ast.For, ast.With)) and
                "calculate_final_population" in norm_src(st)]
        rep.check(not cond, rule, "the final step is unconditional", "calculate_final_population runs only under a condition", loc=loc(ANIM, last[0]))
    # the same for the other per-animal passes of the month loop: a skipped herd would keep last month's records
    for lp in [s for s in ml.body if isinstance(s, ast.For)]:
        exits = [n for st in lp.body for n in ([st] + list(walk_no_nested(st))) if isinstance(n, (ast.Continue, ast.Break, ast.Return))]
        rep.check(not exits, rule, f"per-animal pass at +{lp.lineno - ml.lineno}: no herd is skipped",
                  "a continue/break/return lets a herd skip part of the month's bookkeeping (line " + ", ".join(str(e.lineno) for e in exits[:3]) + ")",
                  loc=loc(ANIM, lp))
    rep.check(norm_src(ml.body[-1]) == "AnimalPopulation.appened_current_populations(all_animals)", rule, "population recorded at month end",
              "the end-of-month head count is not appended to the population list after all animals were updated", loc=loc(ANIM, ml))
    first = [norm_src(s)[:80] for s in ml.body[:3]]
    rep.check(any("AnimalPopulation.set_current_populations(all_animals)" in norm_src(s) for s in ml.body[:3]), rule, "month starts from last recorded head count",
              "the month does not start from the last recorded head count", loc=loc(ANIM, ml))
    sc = index.func(ANIM, "AnimalPopulation.set_current_populations")
    rep.check("animal.current_population = animal.population[-1]" in norm_src(sc), rule, "start = previous end", "start-of-month head count is not the "
              "previous month's end", loc=loc(ANIM, sc))
    rep.require_min(rule, 8)


def xfer(index, rep):
    rule = "C06.XFER"
    main = index.func(ANIM, "main")
    ml = [s for s in main.body if isinstance(s, ast.For) and norm_src(s.iter) == "range(0, months_to_run)"][0]
    stores = [s for s in walk_no_nested(ml) if isinstance(s, ast.Assign) and isinstance(s.targets[0], ast.Subscript)
              and norm_src(s.targets[0]) == "transfer_populations[animal.animal_species]"]
    vals = sorted(norm_src(s.value) for s in stores)
    nonzero = [s for s in stores if norm_src(s.value) != "0"]
    ok = len(nonzero) == 1 and norm_src(nonzero[0].value) == "animal.retiring_milk_head_monthly() + new_transfer_births"
    if ok:
        g = nonzero[0]
        conds = []
        n = getattr(g, "_parent", None)
        while n is not None and n is not ml:
            if isinstance(n, ast.If):
                conds.append(norm_src(n.test))
            n = getattr(n, "_parent", None)
        ok = "animal.animal_function == 'milk'" in conds
    rep.check(ok, rule, "transfer out of a dairy herd = retirements + surviving male calves",
              f"the animals leaving a dairy herd for the meat herd are not retiring_milk_head_monthly() + transfer births, under the dairy guard ({vals})",
              loc=loc(ANIM, ml))
    txt = norm_src(ml)
    rep.check("new_additive_animals_month = births[animal.animal_type] + transfer_populations[animal.animal_species]" in txt, rule,
              "meat herd receives exactly the transfer (+1 coefficient)", "the meat herd does not receive births + the species' transfer", loc=loc(ANIM, ml))
    # the retirements subtracted from the dairy herd come from the same call as the transfer's retirement term
    rep.check("animal.retiring_milk_animals.append(animal.retiring_milk_head_monthly())" in txt, rule, "dairy herd loses the same retirements",
              "the retirements recorded (and subtracted) for the dairy herd are not the retirements added to the meat herd", loc=loc(ANIM, ml))
    cb = index.func(ANIM, "AnimalPopulation.calculate_births")
    it = Interp()
    p, app, br, tc = (Rat.atom((n_,)) for n_ in ("birthing", "per_pregnancy", "birth_ratio", "transfer_culling"))
    animal = Obj(None, {"pregnant_animals_birthing_this_month": PList([p]), "animals_per_pregnancy": app, "birth_ratio": br,
                        "transfer_culling_fraction": tc}, "animal")
    try:
        res = it.call_function(cb, [animal], {}, None)
    except Exception as e:
        raise AnalysisError(f"calculate_births outside the fragment: {e!r}")
    ok = isinstance(res, tuple) and len(res) == 2 and it.to_rat(res[0]) == p * app / br and \
        it.to_rat(res[1]) == p * app / br * (br - Rat.const(1)) * (Rat.const(1) - tc)
    rep.check(ok, rule, "births: own = birthing x per-pregnancy / ratio; transferred = own x (ratio-1) x (1 - calf culling)",
              "calculate_births no longer splits births into (kept in herd, surviving calves transferred) this way", loc=loc(ANIM, cb))
    # init of the per-month dict: every species starts at 0 each month
    inits = [s for s in stores if norm_src(s.value) == "0"]
    rep.check(len(inits) >= 1, rule, "transfer reset each month", "transfer_populations is not reset to 0 for every species each month", loc=loc(ANIM, ml))
    rep.require_min(rule, 5)


def slaughter(index, rep):
    rule = "C06.SLAUGHTER"
    cls = index.cls(ANIM, "AnimalPopulation")
    fn = index.func(ANIM, "AnimalPopulation.calculate_slaughter_rate")
    base, last, hph, rem = (Rat.atom((n_,)) for n_ in ("baseline_slaughter", "last_slaughter", "hours_per_head", "remaining_hours"))

    def runit(it):
        it.classes = {"AnimalPopulation": cls}
        it._mins = {}

        def hook(interp, d, args, kwargs, node):
            if d == "min" and len(args) == 2:
                k = len(interp._mins)
                interp._mins[k] = (interp.to_rat(args[0]), interp.to_rat(args[1]))
                return Rat.atom(("MIN", k))
            return NotImplemented

        it.call_hook = hook
        animal = Obj(None, {"baseline_slaughter": base, "slaughter": PList([last]), "animal_slaughter_hours": hph}, "animal")
        return it.call_function(fn, [animal, Path(("country",)), Rat.atom(("b",)), Rat.atom(("d",)), rem], {}, None)

    try:
        envs = explore(runit, month_classes=False)
    except Unsupported as e:
        raise AnalysisError(f"calculate_slaughter_rate outside the analysed fragment: {e}")
    n = 0
    for _, dec, res, it in envs:
        if isinstance(res, Abort):
            continue
        if res is None:
            rep.info(rule, "calculate_slaughter_rate returns None when the previous slaughter is NaN (the `return` sits inside the else arm)")
            continue
        n += 1
        res = it.to_rat(res)
        if res.is_zero():
            ok = any(k.endswith("> 0") and not v for k, v in dec.items() if "remaining_hours" in k)
            rep.check(ok, rule, "rate = 0 only when no hours remain", "the slaughter rate is zero on a path where hours remain", loc=loc(ANIM, fn))
            continue
        mins = [a for a in res.atoms() if isinstance(a, tuple) and a[0] == "MIN"]
        ok = len(mins) == 1 and res == Rat.atom(mins[0]) / hph
        prev = base if any("country.month" in k and v for k, v in dec.items()) else last
        if ok:
            a, b = it._mins[mins[0][1]]
            ok = {str(a), str(b)} == {str(prev * hph), str(rem)}
        rep.check(ok, rule, f"rate = min(previous slaughter x hours/head, remaining hours) / hours/head [{'month0' if prev == base else 'later'}]",
                  "the allocated slaughter rate is not limited by the hours remaining in the size class (labour capacity can be exceeded)",
                  loc=loc(ANIM, fn), detail=str(res))
    if n < 3:
        raise AnalysisError(f"calculate_slaughter_rate: {n} leaves")
    cc = index.func(ANIM, "AnimalPopulation.calculate_change_in_population")
    txt = [norm_src(s) for s in cc.body]
    i1 = next((i for i, t in enumerate(txt) if t == "allocated_hours = current_slaughter_rate * animal.animal_slaughter_hours"), None)
    i2 = next((i for i, t in enumerate(txt) if t == "remaining_hours_this_size -= allocated_hours"), None)
    i3 = next((i for i, t in enumerate(txt) if t.startswith("assert remaining_hours_this_size >= 0")), None)
    rets = [norm_src(r.value) for r in cc.body if isinstance(r, ast.Return)]
    rep.check(None not in (i1, i2, i3) and i1 < i2 < i3 and rets == ["remaining_hours_this_size"], rule,
              "hours used = slaughter applied x hours/head, subtracted, asserted >= 0, returned",
              "the labour budget is not reduced by slaughter applied x hours per head and checked to stay non-negative", loc=loc(ANIM, cc))
    call = [s for s in walk_no_nested(cc) if isinstance(s, ast.Assign) and isinstance(s.value, ast.Call)
            and dotted(s.value.func) == "AnimalPopulation.calculate_slaughter_rate"]
    rep.check(len(call) == 1 and norm_src(call[0].value.args[4]) == "remaining_hours_this_size", rule, "rate computed from the class's remaining hours",
              "the slaughter rate is not computed from the remaining hours of the animal's size class", loc=loc(ANIM, cc))
    hb = index.func(ANIM, "calculate_net_slaughter_hours_by_size")
    t = norm_src(hb)
    rep.check("for category in ['small', 'medium', 'large']" in t and
              "sum((animal.animal_slaughter_hours * animal.baseline_slaughter for animal in animals if animal.animal_size == category))" in t, rule,
              "budget = sum over the size class of hours/head x baseline slaughter", "the labour budget per size class is not the baseline capacity of that class",
              loc=loc(ANIM, hb))
    main = index.func(ANIM, "main")
    ml = [s for s in main.body if isinstance(s, ast.For) and norm_src(s.iter) == "range(0, months_to_run)"][0]
    budget = [s for s in ml.body if isinstance(s, ast.Assign) and norm_src(s.value) == "calculate_net_slaughter_hours_by_size(all_animals)"]
    rep.check(len(budget) == 1, rule, "budget recomputed every month", "the labour budget is not re-initialised inside the month loop", loc=loc(ANIM, ml))
    thread = [s for s in walk_no_nested(ml) if isinstance(s, ast.Assign) and norm_src(s.targets[0]) == "hours_by_size_dict[animal.animal_size]"]
    ok = len(thread) == 1 and isinstance(thread[0].value, ast.Call) and dotted(thread[0].value.func) == "AnimalPopulation.calculate_change_in_population" and \
        norm_src(thread[0].value.args[3]) == "hours_by_size_dict[animal.animal_size]"
    rep.check(ok, rule, "remaining hours threaded per size class", "what one species leaves of its class's hours is not what the next species of the class gets",
              loc=loc(ANIM, ml))
    rep.require_min(rule, 7)


def describe(rep):
    rep.explanation = (
        "Static analysis of one month-step of the herd simulation (animal_populations.py). C06.LEDGER: "
        "calculate_animal_population and calculate_final_population are abstractly evaluated on symbolic start head count, "
        "additive animals, deaths+retirements, target and allocated rate, forking on every guard; on each leaf the end head count is "
        "start + additive - deaths - slaughter applied (or the zero clamp under a guard that established negativity), the slaughter "
        "applied is 0, herd - target or the allocation, is >= 0, <= the allocation, and leaves the herd at or above target - all "
        "proved from the leaf's own guards. C06.RECORD: slot/def-use rules show that each ledger term is the value appended to the "
        "per-month list in the same iteration (slaughter = value returned by the population step; deaths; births; retirements; "
        "final step after this month's home-kill/starvation appends; population appended at month end; next month starts from it). "
        "C06.XFER: the only non-zero transfer is retirements + surviving male calves under the dairy guard, added with coefficient +1 "
        "to the same species' meat herd, the dairy herd subtracting the same retirements; births split symbolically verified. "
        "C06.SLAUGHTER: rate = min(previous slaughter x h, remaining)/h; hours used = applied x h subtracted and asserted >= 0; budget = "
        "class baseline capacity, recomputed monthly, threaded per class. The multi-month trajectory and data-dependent signs of flows "
        "are NOT decided."
    )
    rep.assumptions = ["target size and allocated rate are non-negative; hours per head positive"]
