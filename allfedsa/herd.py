"""Provenance traces of the herd simulation (animal_populations.py), shared by C06 and C07."""
from __future__ import annotations

import ast

from .core import AnalysisError, norm_src, dotted
from .symx import Path, Unsupported
from .rat import Rat
from .trace import trace_block

ANIM = "src/food_system/animal_populations.py"
_cache = {}
# the steps of the herd simulation that the C05-C07 rules address by name (each is analysed on its own): when the tracer meets a call
# that passes the animal to any OTHER repository function which merely hands it on to further functions, that function's body is
# traced as part of the month (a block of the month loop moved into a helper stays visible)
PRIMITIVES = ("calculate_additive_births", "calculate_animal_population", "calculate_change_in_population", "calculate_final_population",
              "calculate_healthy_homekill_head", "calculate_net_slaughter_hours_by_size", "calculate_other_deaths", "calculate_slaughter_rate",
              "calculate_starving_animals_after_feed", "calculate_starving_homekill_head", "feed_animals", "feed_the_species",
              "set_current_populations", "appened_current_populations")


def month_loop(index):
    main = index.func(ANIM, "main")
    loops = [s for s in main.body if isinstance(s, ast.For) and isinstance(s.iter, ast.Call) and dotted(s.iter.func) == "range" and any(
        isinstance(c, ast.Call) and (dotted(c.func) or "").endswith("feed_animals") for c in ast.walk(s))]
    if len(loops) != 1:
        raise AnalysisError("animal_populations.main: the month loop (the range loop that feeds the animals) was not found")
    return main, loops[0]


def month_trace(index):
    """leaves of one generic month of main(): [(decisions, events, env, interp)]; parameters of main and everything assigned before the
    loop are opaque paths named after themselves, the month index is the symbolic month"""
    key = ("month", id(index))
    if key in _cache:
        return _cache[key]
    main, ml = month_loop(index)
    env = {a.arg: Path((a.arg,)) for a in main.args.args + main.args.kwonlyargs}
    for st in main.body[: main.body.index(ml)]:
        for n in ast.walk(st):
            if isinstance(n, ast.Name) and isinstance(n.ctx, ast.Store):
                env.setdefault(n.id, Path((n.id,)))
    if not isinstance(ml.target, ast.Name):
        raise AnalysisError("month loop target is not a plain name")
    env[ml.target.id] = Rat.atom("M")
    try:
        leaves = trace_block(main, ml.body, env, month_classes=True, primitives=PRIMITIVES)
    except Unsupported as e:
        raise AnalysisError(f"month loop of main outside the analysed fragment: {e}")
    if len(leaves) < 6:
        raise AnalysisError(f"month loop trace produced only {len(leaves)} leaves")
    _cache[key] = (main, ml, leaves)
    return _cache[key]


def function_trace(index, qual, iterations=1, self_obj=False):
    """trace of a whole function body; parameters become Path('P<i>:<name>') - rules address them by position"""
    key = ("fn", id(index), qual, iterations)
    if key in _cache:
        return _cache[key]
    fn = index.func(ANIM, qual)
    env = {a.arg: Path((f"P{i}",)) for i, a in enumerate(fn.args.args)}
    try:
        leaves = trace_block(fn, fn.body, env, month_classes=False, iterations=iterations, primitives=PRIMITIVES)
    except Unsupported as e:
        raise AnalysisError(f"{qual} outside the analysed fragment: {e}")
    _cache[key] = (fn, leaves)
    return _cache[key]


def dec_true(dec, *needles):
    """value of the (unique) decision whose key contains all needles, or None"""
    hits = [v for k, v in dec.items() if all(n in k for n in needles)]
    return hits[0] if len(hits) == 1 else None
