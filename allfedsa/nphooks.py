"""numpy/builtin call models shared by the supply-series checks (used as Interp.call_hook)."""
from __future__ import annotations

from fractions import Fraction

from .rat import Rat
from .symx import PList, RLE, RLECat, NArr, NMask, _segs, Unsupported, canon, Path, Opaque


def np_hook(interp, d, args, kwargs, node):
    if d in ("np.array", "np.asarray", "np.squeeze") and len(args) == 1 and isinstance(args[0], (PList, RLE, RLECat, NArr, tuple)):
        a = args[0]
        if isinstance(a, tuple):
            a = PList(list(a))
        return NArr(_segs(a), getattr(a, "truncated_to", None))
    if d == "list" and len(args) == 1 and isinstance(args[0], (PList, RLE, RLECat, NArr)):
        a = args[0]
        if isinstance(a, PList):
            return PList(list(a.items))
        segs = _segs(a)
        if all(isinstance(n, Rat) and n.is_const() for _, n in segs) and sum(n.as_int() for _, n in segs) <= 200:
            return PList([f for f, n in segs for _ in range(n.as_int())])
        r = RLECat(segs)
        r.truncated_to = getattr(a, "truncated_to", None)
        return r
    if d in ("np.array", "np.asarray") and len(args) == 1 and isinstance(args[0], (Rat, Path)):
        return args[0]
    if d in ("np.sum", "sum") and len(args) == 1 and isinstance(args[0], (PList, NArr)):
        tot = Rat.const(0)
        for f, n in _segs(args[0]):
            tot = tot + interp.to_rat(f) * interp.to_rat(n)
        return tot
    if d == "np.mean" and len(args) == 1 and isinstance(args[0], (PList, NArr)) and _segs(args[0]):
        tot = Rat.const(0)
        cnt = Rat.const(0)
        for f, n in _segs(args[0]):
            tot = tot + interp.to_rat(f) * interp.to_rat(n)
            cnt = cnt + interp.to_rat(n)
        return tot / cnt
    if d == "np.zeros" and len(args) == 1:
        n = interp.to_rat(args[0])
        if n.is_const():
            return NArr([(Rat.const(0), n)])
        return NArr([(Rat.const(0), n)])
    if d == "np.ones" and len(args) == 1:
        n = interp.to_rat(args[0])
        if n.is_const():
            return NArr([(Rat.const(1), n)])
        return NArr([(Rat.const(1), n)])
    if d == "np.linspace" and len(args) == 3:
        a, b, n = (interp.to_rat(x) for x in args)
        if a == b:
            return NArr([(a, n)])
        if n.is_const() and 2 <= n.as_int() <= 400:
            k = n.as_int()
            return NArr([(a + (b - a) * Rat.const(Fraction(i, k - 1)), Rat.const(1)) for i in range(k)])
        # symbolic length: one run whose generic element i (0-based) is a + (b - a) x i / (n - 1)
        from .symx import EIDX
        return NArr([(a + (b - a) * Rat.atom(EIDX) / (n - Rat.const(1)), n)])
    if d == "np.repeat" and len(args) == 2 and isinstance(args[0], (PList, NArr, tuple)) and not (set(kwargs) - {"axis"}):
        # np.repeat(values, counts): element i of a one-dimensional array repeated counts[i] (or the scalar count) times
        src = _segs(PList(list(args[0])) if isinstance(args[0], tuple) else args[0])
        if src is not None and all(isinstance(n, Rat) and n.is_const() for _, n in src) and sum(n.as_int() for _, n in src) <= 400:
            elems = [f for f, n in src for _ in range(n.as_int())]
            cnt = args[1]
            if isinstance(cnt, (Rat, Path)):
                counts = [interp.to_rat(cnt)] * len(elems)
            elif isinstance(cnt, (PList, NArr, tuple)):
                cs = _segs(PList(list(cnt)) if isinstance(cnt, tuple) else cnt)
                counts = None
                if cs is not None and all(isinstance(n, Rat) and n.is_const() for _, n in cs):
                    counts = [interp.to_rat(f) for f, n in cs for _ in range(n.as_int())]
            else:
                counts = None
            if counts is not None and len(counts) == len(elems):
                return NArr([(f, n) for f, n in zip(elems, counts)])
    if d == "np.pad" and len(args) == 2 and isinstance(args[0], (PList, NArr)) and set(kwargs) == {"mode"} and kwargs["mode"] == "edge":
        # np.pad(a, (before, after), mode="edge"): the first / last element repeated
        src = _segs(args[0])
        w = args[1]
        if isinstance(w, PList):
            w = tuple(w.items)
        if isinstance(w, (Rat, Path)):
            w = (w, w)
        if src and isinstance(w, tuple) and len(w) == 2 and all(isinstance(x, (Rat, Path)) for x in w):
            b, a = interp.to_rat(w[0]), interp.to_rat(w[1])
            out = list(src)
            if not (b.is_const() and b.as_int() == 0):
                out = [(src[0][0], b)] + out
            if not (a.is_const() and a.as_int() == 0):
                out = out + [(src[-1][0], a)]
            return NArr(out)
    if d == "np.append" and len(args) == 2:
        sa, sb = _segs(args[0]), _segs(args[1])
        if sa is not None and sb is not None:
            return NArr(sa + sb)
        if sa is not None and isinstance(args[1], Rat):
            return RLECat(sa + [(args[1], ("unknown-length",))])
    if d == "np.arange" and len(args) == 1:
        n = interp.to_rat(args[0])
        if n.is_const() and 0 <= n.as_int() <= 400:
            return NArr([(Rat.const(i), Rat.const(1)) for i in range(n.as_int())])
        from .symx import EIDX
        return NArr([(Rat.atom(EIDX), n)])      # element i of the run is i
    if d == "np.clip" and len(args) == 3 and isinstance(args[0], NArr) and all(isinstance(x, (Rat, Path)) or x is None for x in args[1:]):
        import ast as _ast
        lo = interp.to_rat(args[1]) if args[1] is not None else None
        hi = interp.to_rat(args[2]) if args[2] is not None else None
        out = []
        for f, n in args[0].segs:
            f = interp.to_rat(f)
            if lo is not None and interp.truth(interp.compare(_ast.Lt(), f, lo, node), node):
                out.append((lo, n))
            elif hi is not None and interp.truth(interp.compare(_ast.Lt(), hi, f, node), node):
                out.append((hi, n))
            else:
                out.append((f, n))
        return NArr(out, args[0].truncated_to)
    if d in ("np.all", "np.any") and len(args) == 1 and isinstance(args[0], NMask):
        ts = [bool(t) for t, n in args[0].segs]
        return all(ts) if d == "np.all" else any(ts)
    if d in ("np.concatenate", "np.hstack") and len(args) == 1 and isinstance(args[0], (PList, tuple)):
        parts = args[0].items if isinstance(args[0], PList) else list(args[0])
        segs = [_segs(x) for x in parts]
        if parts and all(s_ is not None for s_ in segs):
            return NArr([sg for s_ in segs for sg in s_])
    if d in ("np.minimum", "np.maximum") and len(args) == 2 and any(isinstance(x, NArr) for x in args):
        import ast as _ast
        m = interp.compare(_ast.LtE(), args[0], args[1], node)
        a, b = args if d == "np.minimum" else (args[1], args[0])

        def seg(x, i):
            return x.segs[i][0] if isinstance(x, NArr) else x

        return NArr([((seg(a, i) if t else seg(b, i)), n) for i, (t, n) in enumerate(m.segs)])
    if d == "np.where" and len(args) == 3 and isinstance(args[0], NMask):
        def seg(x, i):
            return x.segs[i][0] if isinstance(x, NArr) else x

        return NArr([((seg(args[1], i) if t else seg(args[2], i)), n) for i, (t, n) in enumerate(args[0].segs)])
    if d == "np.multiply" and len(args) == 2 and all(isinstance(x, (Rat, Path)) for x in args):
        return interp.to_rat(args[0]) * interp.to_rat(args[1])
    if d == "np.zeros_like" and len(args) == 1:
        return Rat.atom(("zeros_like", canon(args[0])))
    return NotImplemented
