"""C08 — supply series follow the calendar, disruption schedule and configured delays.

All series builders are abstractly evaluated (numpy arrays as run-length segments with elementwise arithmetic):
  C08.CAL     calendar rotation (start month May), year blocks 8, 12, ..., 12, 16 with block k using year k's ratio, in both
              the crop and the grass schedule (sibling agreement)
  C08.LOOP    month i uses calendar month i mod 12 and reduction i; grown = m*r (r>1) or m*r^e; no-relocation = m*r
  C08.FORM    one rational-form obligation per supply class (linear in its baseline, the documented waste factors)
  C08.STOCK   stored food = stock at end of the month before the start x share used - annual minimum x untouched share
  C08.DELAY   delay-then-ramp shapes: lead-in = configured delay + literal lead, non-decreasing ramps, caps
  C08.GROWTH  monthly seaweed gain = 100 x ((1 + d/100)^30 - 1) percent, the quantity the LP ledger applies as 1 + g/100
  C08.LEN     every series is cut to NMONTHS from a list at least that long
  C08.UNITLIT the world-aggregate baselines are of the magnitude of the country table's column sums (same unit)
"""
from __future__ import annotations

import ast
import csv
from fractions import Fraction

from .core import AnalysisError, loc, norm_src, walk_no_nested, dotted, str_const
from .core import Inliner as _Inliner
from .symx import Interp, Obj, Path, PList, PDict, RLE, RLECat, NArr, _segs, Opaque, Unsupported, explore, Abort, NSYM, canon
from .rat import Rat, K, Idx
from .nphooks import np_hook

OC = "src/food_system/outdoor_crops.py"
MD = "src/food_system/meat_and_dairy.py"
PARAMS = "src/optimizer/parameters.py"
SF = "src/food_system/stored_food.py"
SEA = "src/food_system/seafood.py"
SCP = "src/food_system/methane_scp.py"
CS = "src/food_system/cellulosic_sugar.py"
SW = "src/food_system/seaweed.py"
GH = "src/food_system/greenhouses.py"
SCEN = "src/scenarios/scenarios.py"
TABLE = "data/no_food_trade/computer_readable_combined.csv"
OPT = "src/optimizer/optimizer.py"


def run(index, rep):
    start = rep.guard(start_month, index, rep)
    if start is None:
        return
    rep.guard(cal_crops, index, rep, start)
    rep.guard(cal_grass, index, rep, start)
    rep.guard(year1, index, rep)
    rep.guard(loop_rule, index, rep)
    rep.guard(form_fish, index, rep)
    rep.guard(form_crops, index, rep)
    rep.guard(form_greenhouse, index, rep)
    rep.guard(stock, index, rep, start)
    rep.guard(delay_industrial, index, rep)
    rep.guard(delay_greenhouse, index, rep)
    rep.guard(delay_seaweed, index, rep)
    rep.guard(growth, index, rep)
    rep.guard(unitlit, index, rep)
    rep.guard(state8, index, rep)
    rep.guard(ramp_area, index, rep)
    rep.guard(horizon_forwarded, index, rep)
    # feed and biofuel demand are supply-side series of this property too: use every month until the configured shut-off, nothing afterwards,
    # each from its own delay (the rule is C03's; its obligations are filed here under C08.SHUT as well)
    from .c03 import shut as _shut
    from .core import RuleAlias
    rep.guard(_shut, index, RuleAlias(rep, lambda r: "C08.SHUT" if r == "C03.SHUT" else r))


def ramp_area(index, rep):
    """expanded cropland: the multiplier on the grown series is 1 until the first harvest, then ramps linearly to the configured ratio,
    reached after the configured number of years, and stays there (shared evaluation with C09.RELOC)"""
    from .c09 import expanded_area
    fn = index.flat_func(OC, "OutdoorCrops.assign_increase_from_increased_cultivated_area")
    expanded_area(index, rep, fn, "C08.RAMP")


def state8(index, rep):
    """a series is a function of this run's inputs only: the supply modules keep nothing between calls"""
    from .memo import hidden_state_rules
    files = [f"src/food_system/{m}.py" for m in ("outdoor_crops", "greenhouses", "seafood", "meat_and_dairy", "feed_and_biofuels", "methane_scp",
                                                  "cellulosic_sugar", "seaweed", "stored_food")]
    hidden_state_rules(index, rep, "C08.STATE", files, "a supply series handed to the optimiser")
    # two series of one object are two arrays: one bound to the other without a copy and then changed in place changes both
    from .memo import attribute_alias_writes
    hits = attribute_alias_writes(index, files)
    for rel, fn, st, a_, b_ in hits:
        rep.violation("C08.STATE", f"{fn.name}: self.{a_} is self.{b_}",
                      f"`{norm_src(st)[:80]}` changes self.{a_} in place, and self.{a_} was bound to self.{b_} itself (no copy): self.{b_} - a "
                      "series other code still reads as it was - is rewritten with it", loc=loc(rel, st))
    if not hits:
        rep.ok("C08.STATE", "no series of a supply object is changed in place through another attribute bound to the same array")


def K_(path, idx=None):
    return Rat.atom(K(tuple(path), idx))


def module_literals(index, rel):
    """module-level `NAME = <literal list/tuple/dict/number/string>` assignments, as abstract values"""
    out = {}
    it = Interp()
    for st in index.module(rel).body:
        if isinstance(st, ast.Assign) and len(st.targets) == 1 and isinstance(st.targets[0], ast.Name) and not any(
                isinstance(n, (ast.Name, ast.Call, ast.Attribute)) for n in ast.walk(st.value)):
            try:
                out[st.targets[0].id] = it.eval(st.value, {})
            except Unsupported:
                pass
    return out


def run_method(index, rel, clsname, method, self_attrs, args, kwargs=None, decisions=None, extra_hook=None, forks=True, module_globals=False,
               ref_names=None):
    """`ref_names`: the reference tree's names of the parameters `args` are meant for (bound by name when the method still has them, by
    position otherwise - see core.bind_named)"""
    cls = index.cls(rel, clsname)
    fn = index.func(rel, f"{clsname}.{method}")
    if ref_names is not None:
        from .core import bind_named
        args, kw_ = bind_named(fn, list(zip(ref_names, args)))
        kwargs = dict(kwargs or {}, **kw_)
    results = []
    glob = module_literals(index, rel) if module_globals else {}

    def runit(it):
        it.classes = {clsname: cls}
        it.globals.update(glob)

        def hook(interp, d, a, kw, node):
            if extra_hook is not None:
                r = extra_hook(interp, d, a, kw, node)
                if r is not NotImplemented:
                    return r
            return np_hook(interp, d, a, kw, node)

        it.call_hook = hook
        obj = Obj(cls, dict(self_attrs), "self")
        res = it.call_function(fn, list(args), dict(kwargs or {}), obj)
        return res, obj

    try:
        envs = explore(runit, month_classes=False, preset=decisions)
    except Unsupported as e:
        raise AnalysisError(f"{clsname}.{method} outside the analysed fragment: {e}")
    for _, dec, res, it in envs:
        if isinstance(res, Abort):
            continue
        results.append((dec, res[0], res[1], it))
    if not results:
        raise AnalysisError(f"{clsname}.{method}: no completing path")
    return results, fn


# ------------------------------------------------------------------------------------------------ horizon

HORIZON_NAMES = ("nmonths", "n_months", "number_of_months", "num_months")


def horizon_forwarded(index, rep):
    """every supply series has one entry per month of the horizon asked for: a routine that is handed the horizon and calls a routine that
    takes the horizon too (with a default to fall back on) hands it on - leaving it out silently builds that part for the default horizon"""
    rule = "C08.HORIZON"
    rels = [r_ for r_ in index.py_files("src") if r_.startswith(("src/scenarios/", "src/optimizer/", "src/food_system/"))]
    defs = {}
    for rel in rels:
        for fn in [n for n in ast.walk(index.module(rel)) if isinstance(n, ast.FunctionDef)]:
            defs.setdefault(fn.name, []).append((rel, fn))
    n_takers, n_sites, bad = 0, 0, []
    for name, lst in defs.items():
        for rel, g in lst:
            a = g.args
            dflt = [x.arg for x in a.args][len(a.args) - len(a.defaults):] + [x.arg for x, d in zip(a.kwonlyargs, a.kw_defaults) if d is not None]
            if any(p_.lower() in HORIZON_NAMES for p_ in dflt):
                n_takers += 1
    for rel in rels:
        for fn in [n for n in ast.walk(index.module(rel)) if isinstance(n, ast.FunctionDef)]:
            have = {a_.arg for a_ in fn.args.args + fn.args.kwonlyargs if a_.arg.lower() in HORIZON_NAMES}
            if not have:
                continue
            for c in [n for n in walk_no_nested(fn) if isinstance(n, ast.Call)]:
                nm = c.func.attr if isinstance(c.func, ast.Attribute) else (c.func.id if isinstance(c.func, ast.Name) else None)
                if nm not in defs or len(defs[nm]) != 1:
                    continue
                g = defs[nm][0][1]
                a = g.args
                params = [x.arg for x in a.args]
                dflt = params[len(params) - len(a.defaults):] + [x.arg for x, d in zip(a.kwonlyargs, a.kw_defaults) if d is not None]
                want = [p_ for p_ in dflt if p_.lower() in HORIZON_NAMES]
                if not want or any(k.arg is None for k in c.keywords) or any(isinstance(x, ast.Starred) for x in c.args):
                    continue
                skip = 1 if params and params[0] in ("self", "cls") and isinstance(c.func, ast.Attribute) else 0
                passed = set(params[skip:skip + len(c.args)]) | {k.arg for k in c.keywords if k.arg}
                n_sites += 1
                for p_ in want:
                    if p_ not in passed:
                        bad.append((rel, fn, c, nm, p_))
    for rel, fn, c, nm, p_ in bad:
        rep.violation(rule, f"{fn.name} -> {nm}: {p_} not handed on",
                      f"{fn.name} is given the horizon ({', '.join(sorted(a_.arg for a_ in fn.args.args if a_.arg.lower() in HORIZON_NAMES))}) but calls "
                      f"{nm}() without it, so {nm} falls back on its default horizon: the series built there have the default number of months whatever "
                      "horizon the run asked for", loc=loc(rel, c))
    rep.note_analysed("routines_taking_a_default_horizon", n_takers)
    rep.note_analysed("calls_from_a_routine_that_has_the_horizon_to_one_that_takes_it", n_sites)
    if not bad:
        rep.ok(rule, "every routine that is given the horizon hands it on to the routines that take one",
               detail=f"{n_takers} routines take a horizon with a default; {n_sites} call sites from a routine that has the horizon")


# ------------------------------------------------------------------------------------------------ calendar


def start_month(index, rep):
    rule = "C08.CAL"
    res, fn = run_method(index, PARAMS, "Parameters", "__init__", {}, [])
    nums = set()
    for dec, r, obj, it in res:
        v = obj.attrs.get("SIMULATION_STARTING_MONTH_NUM")
        if isinstance(v, Rat) and v.is_const():
            nums.add(v.as_int())
    if len(nums) != 1:
        raise AnalysisError("Parameters.__init__: SIMULATION_STARTING_MONTH_NUM is not a constant")
    start = nums.pop()
    rep.check(start == 5, rule, "simulation starts in May", f"the simulation start month is {start}, the documented start is May (5)", loc=loc(PARAMS, fn))
    # read on the first-round computation with its helpers merged in: wherever the hand-over is written, the input table must carry the
    # simulation start month before the crop model is built from it
    from .core import Inliner as _InlCal
    io = index.flat_func(PARAMS, "Parameters.compute_parameters_first_round", depth=3)
    inl_io = _InlCal(io)
    stores = [t_ for t_, v_ in inl_io.stores if isinstance(t_, ast.Subscript) and str_const(t_.slice) == "STARTING_MONTH_NUM"
              and inl_io.src(v_) == "self.SIMULATION_STARTING_MONTH_NUM"]
    all_stores = [t_ for t_, v_ in inl_io.stores if isinstance(t_, ast.Subscript) and str_const(t_.slice) == "STARTING_MONTH_NUM"]
    built = [c_ for c_ in walk_no_nested(io) if isinstance(c_, ast.Call) and norm_src(c_.func) == "OutdoorCrops"]
    ok = len(stores) == 1 and len(all_stores) == 1 and bool(built) and all(
        stores[0].lineno < c_.lineno and norm_src(stores[0].value) in {norm_src(a_) for a_ in list(c_.args) + [k_.value for k_ in c_.keywords]} for c_ in built)
    rep.check(ok, rule, "start month handed to the crop model", "the crop model does not receive the simulation start month", loc=loc(PARAMS, io))
    return start


def cal_crops(index, rep, start):
    rule = "C08.CAL"
    c = Path(("c",))

    def hook(interp, d, a, kw, node):
        if d == "self.get_year_1_ratio_using_fraction_harvest_before_may":
            from .core import values_by_ref_names
            y1fn = index.func(OC, "OutdoorCrops.get_year_1_ratio_using_fraction_harvest_before_may")
            return Rat.atom(("Y1", str(interp.to_rat(values_by_ref_names(y1fn, a, kw, ["first_year_xia_et_al_reduction"])[0]))))
        if d in ("self.assign_reduction_from_climate_impact", "self.assign_increase_from_increased_cultivated_area"):
            return None
        return NotImplemented

    res, fn = run_method(index, OC, "OutdoorCrops", "calculate_monthly_production", {"STARTING_MONTH_NUM": Rat.const(start), "ANNUAL_YIELD": Rat.atom(("annual",))},
                         [c], extra_hook=hook)
    annual = Rat.atom(("annual",))
    seen = 0
    for dec, r, obj, it in res:
        mc = obj.attrs.get("months_cycle")
        red = obj.attrs.get("all_months_reductions")
        if not isinstance(mc, PList) or len(mc.items) != 12:
            raise AnalysisError("months_cycle is not a 12-entry list")
        seen += 1
        if seen > 1:
            continue
        for j in range(12):
            cal = (start - 1 + j) % 12
            want = K_(("c", "SEASONALITY", "[]"), Idx(0, 0, cal)) * annual * Rat.const(Fraction(4 * 10**6, 10**9))
            rep.check(it.to_rat(mc.items[j]) == want, rule, f"crops: simulated month {j} mod 12 -> calendar month {cal + 1}",
                      f"month {j} of the seasonal cycle does not use the seasonality share of calendar month {cal + 1} x annual yield x 4e6/1e9 "
                      "(the cycle is not rotated to the start month, or a month's share is mis-assigned)", loc=loc(OC, fn), detail=str(mc.items[j]))
        segs = _segs(red)
        # merge equal consecutive fills
        merged = []
        for f, n in segs:
            f, n = it.to_rat(f), it.to_rat(n)
            if merged and merged[-1][0] == f:
                merged[-1] = (f, merged[-1][1] + n)
            else:
                merged.append((f, n))
        want_blocks = [("Y1", 13 - start)] + [(k, 12) for k in range(2, 10)] + [(10, 16)]
        ok = len(merged) == len(want_blocks)
        detail = [(str(f), str(n)) for f, n in merged]
        if ok:
            for (f, n), (yr, ln) in zip(merged, want_blocks):
                if not (n.is_const() and n.as_int() == ln):
                    ok = False
                if yr == "Y1":
                    y1 = [a for a in f.atoms() if isinstance(a, tuple) and a[0] == "Y1"]
                    if not (len(y1) == 1 and f == Rat.atom(y1[0]) and y1[0][1] == str(K_(("c", "RATIO_CROPS_YEAR1")))):
                        ok = False
                elif not (f == K_(("c", f"RATIO_CROPS_YEAR{yr}"))):
                    ok = False
        rep.check(ok, rule, "crops: year blocks 8,12,...,12,16 with year k's ratio",
                  "the disruption schedule is not [year-1 ratio] x (13 - start month) + [year k ratio] x 12 for k = 2..9 + [year 10 ratio] x 16",
                  loc=loc(OC, fn), detail=str(detail)[:400])
        total = sum(n.as_int() for _, n in merged if n.is_const())
        rep.check(total >= 120, "C08.LEN", "crops: disruption schedule covers 120 months", f"schedule has {total} entries", loc=loc(OC, fn))
    rep.require_min(rule, 14)


def cal_grass(index, rep, start):
    rule = "C08.CAL"
    base = K_(("c", "HUMAN_INEDIBLE_FEED_BASELINE_MONTHLY"))
    for N in range(48, 121, 12):
        holder = {}

        def hook(interp, d, a, kw, node, holder=holder):
            if d == "Food":
                if "kcals" in kw and "grass" not in holder:
                    holder["grass"] = kw["kcals"]
                return Path(("food",))
            if d == "int" and len(a) == 1 and isinstance(a[0], Rat) and a[0].is_const():
                return Rat.const(int(a[0].const_value()))
            return NotImplemented

        cls = index.cls(MD, "MeatAndDairy")
        fn = index.func(MD, "MeatAndDairy.__init__")

        def runit(it):
            it.classes = {"MeatAndDairy": cls}
            it.path_alias = {("c", "NMONTHS"): Rat.const(N), ("c", "STARTING_MONTH_NUM"): Rat.const(start)}

            def h(interp, d, a, kw, node):
                r = hook(interp, d, a, kw, node)
                if r is not NotImplemented:
                    return r
                return np_hook(interp, d, a, kw, node)

            it.call_hook = h
            obj = Obj(cls, {}, "self")
            try:
                it.call_function(fn, [Path(("c",))], {}, obj)
            except Unsupported:
                if "grass" not in holder:
                    raise
            return obj

        try:
            envs = explore(runit, month_classes=False)
        except Unsupported as e:
            raise AnalysisError(f"MeatAndDairy.__init__ (grass schedule) outside the analysed fragment: {e}")
        g = holder.get("grass")
        if g is None:
            raise AnalysisError("grass series not found in MeatAndDairy.__init__")
        it0 = Interp()
        merged = []
        for f, n in _segs(g):
            f, n = it0.to_rat(f), it0.to_rat(n)
            if merged and merged[-1][0] == f:
                merged[-1] = (f, merged[-1][1] + n)
            else:
                merged.append((f, n))
        ny = N // 12
        want = [(1, 13 - start)] + [(k, 12) for k in range(2, ny)] + [(ny, 16)]
        ok = len(merged) == len(want) and all(n.is_const() and n.as_int() == ln and f == K_(("c", f"RATIO_GRASSES_YEAR{yr}")) * base
                                               for (f, n), (yr, ln) in zip(merged, want))
        tot = sum(n.as_int() for _, n in merged if n.is_const())
        rep.check(ok and tot == N, rule, f"grass[N={N}]: year blocks {13 - start},12,...,16 x baseline, {N} months",
                  f"the grass schedule for a {N}-month horizon is not year-k ratio x monthly baseline in blocks of {13 - start}, 12, ..., 16 "
                  f"({tot} entries)", loc=loc(MD, fn), detail=str([(str(f), str(n)) for f, n in merged])[:300])


# ------------------------------------------------------------------------------------------------ loop body


def loop_rule(index, rep, rule="C08.LOOP", reloc_rule="C08.LOOP"):
    fn = index.func(OC, "OutdoorCrops.assign_reduction_from_climate_impact")
    loops = [s for s in fn.body if isinstance(s, ast.For)]
    if len(loops) != 1 or norm_src(loops[0].iter) != "range(self.NMONTHS)":
        raise AnalysisError("assign_reduction_from_climate_impact: `for i in range(self.NMONTHS)` not found")
    loop = loops[0]
    iv = loop.target.id
    e_ = Rat.atom(("exponent",))

    def runit(it):
        it._round = {}

        def hook(interp, d, a, kw, node):
            if d == "round" and a:
                k = len(interp._round)
                interp._round[k] = interp.to_rat(a[0])
                return interp.to_rat(a[0])  # rounding of a non-positive value to 8 decimals: identity for the analysis
            return NotImplemented

        it.call_hook = hook
        orig = it.getitem
        idxs = {}

        def getitem(obj, key, node):
            if isinstance(obj, Path) and obj.parts == ("self", "months_cycle"):
                idxs["cycle"] = canon(key)
                return Rat.atom(("m",))
            if isinstance(obj, Path) and obj.parts == ("self", "all_months_reductions"):
                idxs["red"] = canon(key)
                return Rat.atom(("r",))
            if isinstance(obj, PList) and isinstance(key, Rat) and key.is_const() and key.as_int() == -1:
                return obj.items[-1]
            return orig(obj, key, node)

        it.getitem = getitem
        ocls = index.cls(OC, "OutdoorCrops")     # helper methods the loop body calls are followed
        it.classes = {"OutdoorCrops": ocls}
        obj = Obj(ocls, {"KCALS_GROWN": PList([]), "NO_RELOCATION_KCALS_GROWN": PList([]), "OG_KCAL_EXPONENT": e_}, "self")
        env = {"self": obj, iv: Rat.atom(("i",))}
        it.exec_block([s_ for s_ in loop.body if not isinstance(s_, ast.Assert)], env)
        it.last_env = env
        return obj, idxs

    try:
        envs = explore(runit, month_classes=False)
    except Unsupported as e:
        raise AnalysisError(f"crop loop body outside the analysed fragment: {e}")
    m, r = Rat.atom(("m",)), Rat.atom(("r",))
    n = 0
    for _, dec, res, it in envs:
        if isinstance(res, Abort):
            continue
        obj, idxs = res
        n += 1
        grown = obj.attrs["KCALS_GROWN"].items
        base = obj.attrs["NO_RELOCATION_KCALS_GROWN"].items
        from .symx import leaf_implies
        gt1 = leaf_implies(it, dec, r - Rat.const(1), ">")      # the path knows ratio > 1 (whichever way round the test is written)
        arm = "r>1" if gt1 else "r<=1"
        rep.check(idxs.get("cycle") in ("<mod,<i>,12>",) and idxs.get("red") == "<i>", rule, f"indices[{arm}]",
                  f"month i does not take calendar month i mod 12 and reduction i (got cycle index {idxs.get('cycle')}, reduction index {idxs.get('red')})",
                  loc=loc(OC, loop))
        rep.check(len(base) == 1 and it.to_rat(base[0]) == m * r, rule, f"no-relocation = month x reduction [{arm}]",
                  "the no-relocation series is not monthly yield x disruption ratio", loc=loc(OC, loop))
        if gt1:
            ok = len(grown) == 1 and it.to_rat(grown[0]) == m * r
        else:
            pw = [a for a in (it.to_rat(grown[0]).atoms() if len(grown) == 1 else []) if isinstance(a, tuple) and a[0] == "pow"]
            ok = len(pw) == 1 and pw[0][1] == str(r) and pw[0][2] == str(e_) and it.to_rat(grown[0]) == m * Rat.atom(pw[0])
        rep.check(ok, rule, f"relocated = month x ratio (ratio>1) or month x ratio^exponent [{arm}]",
                  "the relocated series is not m*r for r > 1 and m*r^e otherwise", loc=loc(OC, loop))
    if n < 2:
        raise AnalysisError("crop loop: expected both arms")
    # the in-loop assertion, evaluated in the same abstract runs: (last relocated entry) >= month x ratio
    okas = False
    for a_ in [x for x in walk_no_nested(loop) if isinstance(x, ast.Assert)]:
        t_ = a_.test
        if not (isinstance(t_, ast.Compare) and len(t_.ops) == 1 and isinstance(t_.ops[0], (ast.GtE, ast.LtE))):
            continue
        big, small = (t_.left, t_.comparators[0]) if isinstance(t_.ops[0], ast.GtE) else (t_.comparators[0], t_.left)
        good = 0
        for _, dec, res, it in envs:
            if isinstance(res, Abort):
                continue
            obj, idxs = res
            try:
                lhs = it.to_rat(it.eval(big, it.last_env))
                rhs = it.to_rat(it.eval(small, it.last_env))
            except Exception:
                good = -1
                break
            grown = obj.attrs["KCALS_GROWN"].items
            if len(grown) == 1 and lhs == it.to_rat(grown[0]) and rhs == m * r:
                good += 1
            else:
                good = -1
                break
        if good >= 2:
            okas = True
            break
    rep.check(okas, reloc_rule, "assert relocated >= not relocated",
              "the in-loop assertion that relocation never lowers a month's output is gone", loc=loc(OC, loop))
    rep.require_min(rule, 6)


# ------------------------------------------------------------------------------------------------ forms


def keep(pathroot, key):
    return Rat.const(1) - K_((pathroot, "WASTE_DISTRIBUTION", key)) / Rat.const(100)


def form_fish(index, rep):
    rule = "C08.FORM"
    res, fn = run_method(index, SEA, "Seafood", "__init__", {}, [Path(("c",))])
    dec, r, obj, it = res[0]
    wr = Rat.const(1) - K_(("c", "WASTE_RETAIL")) / Rat.const(100)
    want = K_(("c", "FISH_DRY_CALORIC_ANNUAL")) * keep("c", "SEAFOOD") * wr * Rat.const(Fraction(4 * 10**6, 12 * 10**9))
    rep.check(it.to_rat(obj.attrs.get("FISH_KCALS")) == want, rule, "fish: annual x (1-dist)(1-retail) x 4e6/1e9/12",
              "monthly fish kcals are not the annual dry-caloric tonnage x both waste factors x 4e6/1e9/12 (fish bypasses the LP, so retail "
              "waste belongs here)", loc=loc(SEA, fn), detail=str(obj.attrs.get("FISH_KCALS")))
    for nm, key in (("FISH_FAT", "FISH_FAT_TONS_ANNUAL"), ("FISH_PROTEIN", "FISH_PROTEIN_TONS_ANNUAL")):
        w = K_(("c", key)) / Rat.const(12000) * keep("c", "SEAFOOD") * wr
        rep.check(it.to_rat(obj.attrs.get(nm)) == w, rule, f"fish: {nm}", f"{nm} is not annual tons/1e3/12 x both waste factors", loc=loc(SEA, fn))
    pct = NArr([(Rat.atom(("pct",)), Rat.atom(("len",)))])
    res2, fn2 = run_method(index, SEA, "Seafood", "set_seafood_production",
                           {"NMONTHS": Rat.atom(NSYM), "ADD_FISH": True, "FISH_KCALS": Rat.atom(("FK",)), "FISH_FAT": Rat.atom(("FF",)),
                            "FISH_PROTEIN": Rat.atom(("FP",))}, [PDict({"FISH_PERCENT_MONTHLY": pct})],
                           extra_hook=lambda i, d, a, kw, n: Obj(None, dict(kw), "food") if d == "Food" else NotImplemented)
    dec, r, obj, it = res2[0]
    food = obj.attrs.get("to_humans")
    ok = isinstance(food, Obj) and isinstance(food.attrs.get("kcals"), (NArr, RLECat))
    if ok:
        segs = _segs(food.attrs["kcals"])
        ok = len(segs) == 1 and it.to_rat(segs[0][0]) == Rat.atom(("pct",)) / Rat.const(100) * Rat.atom(("FK",)) and \
            getattr(food.attrs["kcals"], "truncated_to", None) is not None and it.to_rat(food.attrs["kcals"].truncated_to) == Rat.atom(NSYM)
    rep.check(ok, rule, "fish: month m = percent[m]/100 x monthly baseline, cut to NMONTHS",
              "the fish series is not percent[m]/100 x the monthly baseline for the first NMONTHS months", loc=loc(SEA, fn2))
    rep.require_min(rule, 4)


def form_crops(index, rep):
    rule = "C08.FORM"
    res, fn = run_method(index, OC, "OutdoorCrops", "__init__", {}, [Path(("c",))])
    for dec, r, obj, it in res[:1]:
        ay = it.to_rat(obj.attrs.get("ANNUAL_YIELD"))
        base = K_(("c", "BASELINE_CROP_KCALS"))
        ratio = ay / base
        rep.check(ratio.is_const() and 0 < ratio.const_value() <= 1, rule, "crops: annual yield linear in the crop baseline (seed share removed)",
                  "the annual yield is not a constant share (<= 1) of the crop baseline: scaling the baseline would not scale the series", loc=loc(OC, fn),
                  detail=str(ay))
        rep.check(it.to_rat(obj.attrs.get("CROP_WASTE_DISTRIBUTION")) == K_(("c", "WASTE_DISTRIBUTION", "CROPS")), rule, "crops: distribution waste = CROPS",
                  "crop distribution waste is not WASTE_DISTRIBUTION[CROPS]", loc=loc(OC, fn))
    production_form(index, rep, rule)


def produced_var(fn):
    """name of the local that carries the produced series into the Food(...) construction of set_crop_production_minus_greenhouse_area:
    followed back from the kcals field through plain single definitions to the one name that is assigned on several paths, filled by slice
    stores, or returned by a helper method"""
    params = {a.arg for a in fn.args.args}
    foods = [c for c in ast.walk(fn) if isinstance(c, ast.Call) and dotted(c.func) == "Food"]
    if len(foods) != 1:
        raise AnalysisError("set_crop_production_minus_greenhouse_area: the production Food(...) construction was not found")
    kc = [k.value for k in foods[0].keywords if k.arg == "kcals"] or (foods[0].args[:1])
    stored = {n.id for n in ast.walk(fn) if isinstance(n, ast.Name) and isinstance(n.ctx, ast.Store)}
    sliced = {t.value.id for st in ast.walk(fn) if isinstance(st, ast.Assign) for t in st.targets
              if isinstance(t, ast.Subscript) and isinstance(t.value, ast.Name)}
    inl = _Inliner(fn, max_depth=0)
    cands, seen, work = set(), set(), [kc[0]] if kc else []
    while work:
        e = work.pop()
        for n in ast.walk(e):
            if isinstance(n, ast.Name) and n.id in stored and n.id not in params and n.id not in seen:
                seen.add(n.id)
                d = inl.single(n.id)
                helper_call = isinstance(d, ast.Call) and (dotted(d.func) or "").startswith("self.")
                if d is None or n.id in sliced or helper_call:
                    cands.add(n.id)
                else:
                    work.append(d)
    if len(cands) != 1:
        raise AnalysisError(f"production Food(...): the produced series is not one local variable ({sorted(cands)})")
    return cands.pop()


def production_split(fn):
    """(name of the produced series, index into fn.body of the first statement after its last top-level assignment)"""
    name = produced_var(fn)
    last = None
    for i, st in enumerate(fn.body):
        for n in ast.walk(st):
            if isinstance(n, ast.Name) and n.id == name and isinstance(n.ctx, ast.Store):
                last = i
            if isinstance(n, ast.Subscript) and isinstance(n.ctx, ast.Store) and isinstance(n.value, ast.Name) and n.value.id == name:
                last = i
    if last is None:
        raise AnalysisError("production series is never assigned")
    return name, last + 1


def production_form(index, rep, rule):
    """production = crops_produced x (1 - distribution waste): the rest of set_crop_production_minus_greenhouse_area is evaluated
    with crops_produced opaque (shared by C08.FORM and C09.GH)"""
    cls = index.cls(OC, "OutdoorCrops")
    fn = index.func(OC, "OutdoorCrops.set_crop_production_minus_greenhouse_area")
    gfa = Path(("gfa",))
    def run_rest(it):
        it.classes = {"OutdoorCrops": cls}

        def hook(interp, d, a, kw, node):
            if d == "Food":
                return Obj(None, dict(kw), "food")
            if d == "np.isnan":
                return Obj(None, {}, "nan-test")
            return np_hook(interp, d, a, kw, node)

        it.call_hook = hook
        obj = Obj(cls, {"CROP_WASTE_DISTRIBUTION": Rat.atom(("Wd",)), "OG_FRACTION_FAT": Rat.atom(("ff",)), "OG_FRACTION_PROTEIN": Rat.atom(("fp",))}, "self")
        P_ = [a.arg for a in fn.args.args]
        pname, first = production_split(fn)
        env = {"self": obj, P_[1]: Path(("c",)), P_[2]: gfa, pname: Rat.atom(("CP",))}
        rest = [st for st in fn.body[first:] if not isinstance(st, ast.Assert)]
        it.exec_block(rest, env)
        return obj

    try:
        rest_envs = explore(run_rest, month_classes=False)
    except Unsupported as e:
        raise AnalysisError(f"set_crop_production_minus_greenhouse_area (production part) outside the analysed fragment: {e}")
    CP, Wd = Rat.atom(("CP",)), Rat.atom(("Wd",))
    for _, dec, obj, it in rest_envs:
        if isinstance(obj, Abort):
            continue
        prod = obj.attrs.get("production")
        k = prod.attrs.get("kcals") if isinstance(prod, Obj) else None
        ok = k is not None and it.to_rat(k) == CP * (Rat.const(1) - Wd / Rat.const(100))
        rep.check(ok, rule, "production = crops_produced x (1 - W)", "the production series is not crops_produced x (1 - distribution waste)",
                  loc=loc(OC, fn), detail=str(k))


def form_greenhouse(index, rep):
    """greenhouse crops: per-hectare yield month i = mean(seasonal cycle)/cropland x r_i (r_i > 1) or r_i^e, x (1-dist)(1-retail),
    x rotation ratio x (1 + gain/100); series handed over = per-hectare yield x greenhouse area of the same month"""
    rule = "C08.FORM"
    fn = index.func(GH, "Greenhouses.assign_productivity_reduction_from_climate_impact")
    loops = [s for s in fn.body if isinstance(s, ast.For)]
    if len(loops) != 1 or norm_src(loops[0].iter) not in ("range(self.NMONTHS)", "range(0, self.NMONTHS)"):
        raise AnalysisError("greenhouse productivity: `for i in range(self.NMONTHS)` not found")
    loop = loops[0]
    pre = [s for s in fn.body[: fn.body.index(loop)] if not isinstance(s, (ast.Assert, ast.Expr))]
    post = [s for s in fn.body[fn.body.index(loop) + 1:] if not isinstance(s, (ast.Assert, ast.Expr))]
    area, e_, coef = Rat.atom(("area",)), Rat.atom(("exponent",)), Rat.atom(("coef",))
    mean_cycle = Rat.atom(("mean-cycle",))

    def runit(it):
        def hook(interp, d, a, kw, node):
            if d == "np.mean" and a and isinstance(a[0], Path) and a[0].parts == ("cycle",):
                return mean_cycle
            if d == "round" and a:
                return interp.to_rat(a[0])
            return np_hook(interp, d, a, kw, node)

        it.call_hook = hook
        idx = {}
        orig = it.getitem

        def getitem(obj, key, node):
            if isinstance(obj, Path) and obj.parts == ("amr",):
                idx["red"] = canon(key)
                return Rat.atom(("r",))
            return orig(obj, key, node)

        it.getitem = getitem
        obj = Obj(None, {"TOTAL_CROP_AREA": area, "NMONTHS": Rat.atom(NSYM)}, "self")
        env = {"self": obj, "months_cycle": Path(("cycle",)), "all_months_reductions": Path(("amr",)), "exponent": e_,
               "CROP_WASTE_COEFFICIENT": coef, loop.target.id: Rat.atom(("i",))}
        it.exec_block(pre, env)
        lists = {k: v for k, v in env.items() if isinstance(v, PList) and not v.items}
        it.exec_block([s for s in loop.body if not isinstance(s, ast.Assert)], env)
        grown = [(k, v.items) for k, v in lists.items() if v.items]
        return env, idx, grown

    try:
        envs = explore(runit, month_classes=False)
    except Unsupported as e:
        raise AnalysisError(f"greenhouse productivity loop outside the analysed fragment: {e}")
    r = Rat.atom(("r",))
    n = 0
    lname = None
    for _, dec, res, it in envs:
        if isinstance(res, Abort):
            continue
        env, idx, grown = res
        n += 1
        from .symx import leaf_implies
        gt1 = leaf_implies(it, dec, r - Rat.const(1), ">")
        arm = "r>1" if gt1 else "r<=1"
        ok = len(grown) == 1 and len(grown[0][1]) == 1 and idx.get("red") == "<i>"
        if ok:
            lname = grown[0][0]
            v = it.to_rat(grown[0][1][0])
            if gt1:
                ok = v == mean_cycle / area * r
            else:
                pw = [a for a in v.atoms() if isinstance(a, tuple) and a[0] == "pow"]
                ok = len(pw) == 1 and pw[0][1] == str(r) and pw[0][2] == str(e_) and v == mean_cycle / area * Rat.atom(pw[0])
        rep.check(ok, rule, f"greenhouse per-hectare yield: month i = mean cycle / cropland x r_i (or r_i^e) [{arm}]",
                  "the greenhouse yield per hectare of month i is not the average seasonal month / total cropland x the disruption ratio of "
                  "month i (relocated: ratio^exponent for ratios <= 1)", loc=loc(GH, loop))
    if n < 2 or lname is None:
        raise AnalysisError("greenhouse productivity loop: expected both arms")
    # after the loop: GH_KCALS_GROWN_PER_HECTARE = waste coefficient x that list, elementwise
    it = Interp()
    it.call_hook = np_hook
    obj = Obj(None, {"NMONTHS": Rat.atom(NSYM)}, "self")
    env = {"self": obj, lname: RLE(Rat.atom(("g",)), Rat.atom(NSYM)), "CROP_WASTE_COEFFICIENT": coef, "all_months_reductions": Path(("amr",))}
    try:
        it.exec_block(post, env)
    except Unsupported as e:
        raise AnalysisError(f"greenhouse productivity (after the loop) outside the analysed fragment: {e}")
    out = obj.attrs.get("GH_KCALS_GROWN_PER_HECTARE")
    segs = _segs(out) if out is not None else None
    rep.check(bool(segs) and len(segs) == 1 and it.to_rat(segs[0][0]) == coef * Rat.atom(("g",)), rule,
              "greenhouse per-hectare yield x waste coefficient", "the per-hectare series is not the computed list x the crop waste coefficient",
              loc=loc(GH, fn))
    # the coefficient passed in is (1 - dist CROPS)(1 - retail)
    ga = index.func(GH, "Greenhouses.get_greenhouse_area")
    calls = [c for c in walk_no_nested(ga) if isinstance(c, ast.Call) and isinstance(c.func, ast.Attribute)
             and c.func.attr == "assign_productivity_reduction_from_climate_impact"]
    from .core import args_by_ref_names as _abn8, ref_params as _rp8
    apr = index.func(GH, "Greenhouses.assign_productivity_reduction_from_climate_impact")
    a4_ = _abn8(calls[0], apr, ["months_cycle", "all_months_reductions", "exponent", "CROP_WASTE_COEFFICIENT"]) if len(calls) == 1 else [None]
    ok = None not in a4_
    if ok:
        it2 = Interp()
        ga_c, ga_oc = _rp8(ga, ["constants_for_params", "outdoor_crops"])
        env2 = {ga_c: Path(("c",)), "self": Obj(None, {}, "self")}
        try:
            v = it2.eval(_Inliner(ga).at(calls[0]).expr(a4_[3]), env2)     # the coefficient, whether computed into a local or in place
        except Unsupported:
            v = None
        ok = isinstance(v, Rat) and v == keep("c", "CROPS") * (Rat.const(1) - K_(("c", "WASTE_RETAIL")) / Rat.const(100))
        ok = ok and [norm_src(a) for a in a4_[:3]] == [f"{ga_oc}.months_cycle", f"{ga_oc}.all_months_reductions", f"{ga_oc}.OG_KCAL_EXPONENT"]
    rep.check(ok, rule, "greenhouse waste coefficient = (1 - CROPS distribution)(1 - retail); cycle, reductions, exponent from the crop model",
              "the greenhouse yield does not receive the crop model's cycle / reductions / exponent and (1-dist)(1-retail) (greenhouse crops bypass "
              "the LP's retail factor)", loc=loc(GH, ga))
    # yield per ha -> x rotation ratio x (1 + gain/100); fat/protein = ratio x kcals
    oc = Obj(None, {"KCAL_RATIO_ROTATION": Rat.atom(("kr",)), "FAT_RATIO_ROTATION": Rat.atom(("fr",)), "PROTEIN_RATIO_ROTATION": Rat.atom(("pr",))}, "oc")
    res, fn2 = run_method(index, GH, "Greenhouses", "get_greenhouse_yield_per_ha",
                          {"ADD_GREENHOUSES": True, "NMONTHS": Rat.atom(NSYM), "GH_KCALS_GROWN_PER_HECTARE": PList([Rat.atom(("y", 0)), Rat.atom(("y", 1))])},
                          [Path(("c",)), oc], ref_names=("constants_for_params", "outdoor_crops"))
    dec, r_, obj, it3 = res[0]
    gain = Rat.const(1) + K_(("c", "GREENHOUSE_GAIN_PCT")) / Rat.const(100)
    ok = isinstance(r_, tuple) and len(r_) == 3
    if ok:
        lists = [_segs(x) for x in r_]
        ok = all(ls is not None and len(ls) == 2 for ls in lists)
        for j in range(2):
            if not ok:
                break
            y = Rat.atom(("y", j))
            ok = it3.to_rat(lists[0][j][0]) == y * Rat.atom(("kr",)) * gain and it3.to_rat(lists[1][j][0]) == y * Rat.atom(("kr",)) * gain * Rat.atom(("fr",)) \
                and it3.to_rat(lists[2][j][0]) == y * Rat.atom(("kr",)) * gain * Rat.atom(("pr",))
        ok = ok and all(getattr(x, "truncated_to", None) is not None and it3.to_rat(x.truncated_to) == Rat.atom(NSYM) for x in r_)
    rep.check(ok, rule, "greenhouse yield: month m = per-hectare[m] x rotation ratio x (1 + gain/100), fat/protein by ratio, cut to NMONTHS",
              "the greenhouse yield is not the per-hectare series x rotation ratio x (1 + gain/100) month by month", loc=loc(GH, fn2))
    # handed to the optimiser: per-hectare yield x area of the same month
    pf = index.func(PARAMS, "Parameters.init_greenhouse_params")
    foods = [c for c in walk_no_nested(pf) if isinstance(c, ast.Call) and dotted(c.func) == "Food"]
    ok = len(foods) == 1
    if ok:
        inl_pf = _Inliner(pf)
        kw = {k.arg: k.value for k in foods[0].keywords}
        for lane, slot in (("kcals", 0), ("fat", 1), ("protein", 2)):
            c = kw.get(lane)
            if isinstance(c, ast.Name) and inl_pf.single(c.id) is not None:
                c = inl_pf.single(c.id)        # the product computed into a local first
            ok = ok and isinstance(c, ast.Call) and dotted(c.func) == "np.multiply" and len(c.args) == 2
            if ok:
                alts = [inl_pf.alternatives(a_) or ["?"] for a_ in c.args]
                # one factor: slot `slot` of this run's Greenhouses(...).get_greenhouse_yield_per_ha(...) (or zeros when there is no cropland);
                # the other: the same object's get_greenhouse_area(...)
                def is_yield(al):
                    return all((a_.startswith("Greenhouses(") and ".get_greenhouse_yield_per_ha(" in a_ and a_.endswith(f"[{slot}]")) or a_.startswith("np.zeros(") for a_ in al) \
                        and any(a_.startswith("Greenhouses(") for a_ in al)

                def is_area(al):
                    return all(a_.startswith("Greenhouses(") and ".get_greenhouse_area(" in a_ for a_ in al)

                ok = (is_yield(alts[0]) and is_area(alts[1])) or (is_yield(alts[1]) and is_area(alts[0]))
    rep.check(ok, rule, "greenhouse crops handed over = yield per hectare x greenhouse area (same lane, same run)",
              "time_consts['greenhouse_crops'] is not the per-hectare yield of each nutrient x the greenhouse area", loc=loc(PARAMS, pf))


def year1(index, rep):
    """year-1 (May-December) ratio: harvest-before-May share hb = the value the code itself states for the listed countries, the first
    four seasonality shares otherwise; result = 0 if R - hb <= 0, 1 if 1 - hb < 0.25, else (R - hb)/(1 - hb)"""
    from .rat import feasible
    from .symx import _Return
    rule = "C08.Y1"
    fn = index.func(OC, "OutdoorCrops.get_year_1_ratio_using_fraction_harvest_before_may")
    names = [a.arg for a in fn.args.args if a.arg != "self"]
    if len(names) != 3:
        raise AnalysisError("get_year_1_ratio_using_fraction_harvest_before_may: signature changed")
    from .core import ref_params as _rpy, args_by_ref_names as _abny
    names = _rpy(fn, ["first_year_xia_et_al_reduction", "seasonality_values", "country_iso3"])
    # the country exceptions the code states: `== "XXX"` tests whose arm assigns a number, or a dict literal of code -> number
    stated = {}
    for n in ast.walk(fn):
        if isinstance(n, ast.If) and isinstance(n.test, ast.Compare) and len(n.test.ops) == 1 and isinstance(n.test.ops[0], (ast.Eq, ast.In)):
            if isinstance(n.test.ops[0], ast.Eq):
                codes = [str_const(n.test.comparators[0]) or str_const(n.test.left)]
            else:
                seq = n.test.comparators[0]
                codes = [str_const(e) for e in seq.elts] if isinstance(seq, (ast.Tuple, ast.List, ast.Set)) else []
            vals = [s_.value.value for s_ in n.body if isinstance(s_, ast.Assign) and isinstance(s_.value, ast.Constant)
                    and isinstance(s_.value.value, (int, float)) and not isinstance(s_.value.value, bool)]
            for code in codes:
                if code and len(code) == 3 and code.isupper() and len(vals) == 1:
                    stated[code] = Fraction(vals[0])
        if isinstance(n, ast.Dict) and n.keys and all(str_const(k) and len(str_const(k)) == 3 for k in n.keys) and all(
                isinstance(v, ast.Constant) and isinstance(v.value, (int, float)) for v in n.values):
            for k, v in zip(n.keys, n.values):
                stated[str_const(k)] = Fraction(v.value)
    if len(stated) < 3:
        raise AnalysisError(f"year-1 ratio: country exceptions not found in the code (found {sorted(stated)})")
    R = Rat.atom(("R",))
    seas = PList([Rat.atom(("s", i)) for i in range(12)])
    neg = {"<": ">=", "<=": ">", ">": "<=", ">=": "<", "==": "!=", "!=": "=="}
    for code in sorted(stated) + ["XXX"]:
        def runit(it, code=code):
            it.call_hook = np_hook
            env = {"self": Obj(None, {}, "self"), names[0]: R, names[1]: seas, names[2]: code}
            try:
                it.exec_block([s_ for s_ in fn.body if not isinstance(s_, ast.Assert)], env)
            except _Return as r:
                return r.value
            return None

        try:
            leaves = explore(runit, month_classes=False)
        except Unsupported as e:
            raise AnalysisError(f"year-1 ratio outside the analysed fragment: {e}")
        hb = Rat.const(stated[code]) if code in stated else sum((Rat.atom(("s", i)) for i in range(4)), Rat.const(0))
        n = 0
        first_bad = None
        for _, dec, res, it in leaves:
            if isinstance(res, Abort):
                continue
            cons = [(it.pred_exprs[k][0], it.pred_exprs[k][1] if v else neg[it.pred_exprs[k][1]]) for k, v in dec.items() if k in it.pred_exprs]
            # data assumptions: ratio below 101 (asserted in the code), shares within [0, 1]
            cons0 = cons + [(hb, ">="), (hb - Rat.const(1), "<=")]
            if not feasible(cons0):
                continue
            n += 1
            d = R - hb
            pos = not feasible(cons0 + [(d, "<=")])          # conditions imply R - hb > 0
            nonpos = not feasible(cons0 + [(d, ">")])        # conditions imply R - hb <= 0
            small = not feasible(cons0 + [(Rat.const(1) - hb - Rat.const(Fraction(1, 4)), ">=")])   # 1 - hb < 0.25
            large = not feasible(cons0 + [(Rat.const(1) - hb - Rat.const(Fraction(1, 4)), "<")])    # 1 - hb >= 0.25
            want = None
            if nonpos:
                want = Rat.const(0)
            elif pos and small:
                want = Rat.const(1)
            elif pos and large:
                want = d / (Rat.const(1) - hb)
            where = " and ".join(f"{c[0]} {c[1]} 0" for c in cons) or "always"
            got = it.to_rat(res) if isinstance(res, (Rat, Path)) else None
            ok = want is not None and got is not None and got == want
            if not ok and first_bad is None:
                first_bad = (got, want, where)
        if n == 0:
            raise AnalysisError(f"year-1 ratio [{code}]: no feasible path")
        label = code if code in stated else "other countries"
        rep.check(first_bad is None, rule, f"year-1 ratio [{label}] on all {n} feasible paths",
                  f"for {label} the May-December ratio is not derived from harvest-before-May = "
                  f"{stated[code] if code in stated else 'first four seasonality shares'} (the value the code itself states)" +
                  (f": got {first_bad[0]}, expected {first_bad[1]} when {first_bad[2]}" if first_bad else ""), loc=loc(OC, fn))
    # the caller passes year-1 ratio, the seasonality vector and the country code
    cm = index.func(OC, "OutdoorCrops.calculate_monthly_production")
    calls = [c for c in walk_no_nested(cm) if isinstance(c, ast.Call) and isinstance(c.func, ast.Attribute)
             and c.func.attr == "get_year_1_ratio_using_fraction_harvest_before_may"]
    y3 = _abny(calls[0], fn, ["first_year_xia_et_al_reduction", "seasonality_values", "country_iso3"]) if len(calls) == 1 else [None]
    cmc = _rpy(cm, ["constants_for_params"])[0]
    ok = None not in y3 and norm_src(y3[1]) == f"{cmc}['SEASONALITY']" and norm_src(y3[2]) == f"{cmc}['COUNTRY_CODE']"
    rep.check(ok, rule, "year-1 ratio: called with the seasonality vector and the country code",
              "calculate_monthly_production does not hand the seasonality vector and the country code to the year-1 helper", loc=loc(OC, cm))
    rep.require_min(rule, 5)


def stock(index, rep, start):
    rule = "C08.STOCK"
    stocks = PList([Rat.atom(("stock", i)) for i in range(12)])
    mins = {}

    def hook(interp, d, a, kw, node):
        if d == "min" and len(a) == 1 and a[0] is stocks:
            return Rat.atom(("MINSTOCK",))
        if d == "Food":
            return Obj(None, dict(kw), "food")
        return NotImplemented

    attrs = {"end_of_month_stocks": stocks, "ratio_lowest_stocks_untouched": Rat.atom(("untouched",)), "percent_stored_food_to_use": Rat.atom(("pct_use",)),
             "CROP_WASTE_DISTRIBUTION": Rat.atom(("Wd",)), "SF_FRACTION_FAT": Rat.atom(("ff",)), "SF_FRACTION_PROTEIN": Rat.atom(("fp",))}
    res, fn = run_method(index, SF, "StoredFood", "calculate_stored_food_to_use", attrs, [Rat.const(start)], extra_hook=hook)
    for dec, r, obj, it in res[:1]:
        prev = (start - 2) % 12
        tons = Rat.atom(("stock", prev)) * Rat.atom(("pct_use",)) / Rat.const(100) - Rat.atom(("MINSTOCK",)) * Rat.atom(("untouched",))
        rep.check(it.to_rat(obj.attrs.get("TONS_DRY_CALORIC_EQIVALENT_SF")) == tons, rule,
                  f"stored tonnage = end-of-month stock of calendar month {prev + 1} x share used - annual minimum x untouched share",
                  "the stock available at the start is not the previous month's end-of-month stock x share used minus the untouched share of the annual "
                  "minimum (wrong month index or formula)", loc=loc(SF, fn), detail=str(obj.attrs.get("TONS_DRY_CALORIC_EQIVALENT_SF")))
        food = obj.attrs.get("initial_available")
        want = tons * Rat.const(Fraction(4 * 10**6, 10**9)) * (Rat.const(1) - Rat.atom(("Wd",)) / Rat.const(100))
        rep.check(isinstance(food, Obj) and it.to_rat(food.attrs.get("kcals")) == want, rule, "stored food kcals = tonnage x 4e6/1e9 x (1 - distribution waste)",
                  "initial stored food is not tonnage x 4e6/1e9 x (1 - crop distribution waste)", loc=loc(SF, fn))
    names = ["JAN", "FEB", "MAR", "APR", "MAY", "JUN", "JUL", "AUG", "SEP", "OCT", "NOV", "DEC"]
    init = index.func(SF, "StoredFood.__init__")

    def hook0(interp, d, a, kw, node):
        if d and d.startswith("super"):
            return None
        if isinstance(node.func, ast.Attribute) and isinstance(node.func.value, ast.Call) and dotted(node.func.value.func) == "super":
            return None
        return NotImplemented

    oc0 = Obj(None, {"OG_FRACTION_FAT": Rat.atom(("ff",)), "OG_FRACTION_PROTEIN": Rat.atom(("fp",))}, "outdoor_crops")
    res0, _ = run_method(index, SF, "StoredFood", "__init__", {}, [Path(("c",)), oc0], extra_hook=hook0, module_globals=True, ref_names=("constants_for_params", "outdoor_crops"))
    ok = False
    for dec, r, obj, it in res0[:1]:
        lst = obj.attrs.get("end_of_month_stocks")
        ok = isinstance(lst, PList) and len(lst.items) == 12 and all(
            isinstance(v, (Rat, Path)) and it.to_rat(v) == K_(("c", "END_OF_MONTH_STOCKS", nm)) for v, nm in zip(lst.items, names))
    rep.check(ok, rule, "stock list index k = calendar month k+1", "the end-of-month stock list is not filled January..December in order", loc=loc(SF, init))
    p = index.flat_func(PARAMS, "Parameters.compute_parameters_first_round", depth=3)
    from .core import Inliner as _Inl
    inl_sf = _Inl(p)
    calls_sf = [inl_sf.src(c_) for c_ in walk_no_nested(p) if isinstance(c_, ast.Call) and isinstance(c_.func, ast.Attribute) and c_.func.attr == "calculate_stored_food_to_use"]
    rep.check(len(calls_sf) == 1 and calls_sf[0].startswith("StoredFood(") and calls_sf[0].endswith(".calculate_stored_food_to_use(self.SIMULATION_STARTING_MONTH_NUM)"),
              rule, "called with the simulation start month",
              "stored food is not computed for the simulation's start month", loc=loc(PARAMS, p))
    rep.require_min(rule, 4)


# ------------------------------------------------------------------------------------------------ delays


def leading_zeros(segs, it):
    tot = Rat.const(0)
    for f, n in segs:
        if it.to_rat(f).is_zero():
            tot = tot + it.to_rat(n)
        else:
            break
    return tot


def nondecreasing_fills(segs, it):
    vals = []
    for f, n in segs:
        f = it.to_rat(f)
        if not f.is_const():
            return None
        vals.append(f.const_value())
    return all(a <= b for a, b in zip(vals, vals[1:]))


def delay_industrial(index, rep):
    rule = "C08.DELAY"
    D = K_(("c", "DELAY", "INDUSTRIAL_FOODS_MONTHS"))
    lead = {}
    for rel, clsname, meth, flag, attr, literal_lead, frac, wkey in (
            (SCP, "MethaneSCP", "calculate_monthly_scp_caloric_production", "c.ADD_METHANE_SCP", "production_kcals_scp_per_month", 12,
             "SCP_GLOBAL_PRODUCTION_FRACTION", "SCP_WASTE_DISTRIBUTION"),
            (CS, "CellulosicSugar", "calculate_monthly_cs_production", "c.ADD_CELLULOSIC_SUGAR", "production_kcals_CS_per_month", 5,
             "CS_GLOBAL_PRODUCTION_FRACTION", "SUGAR_WASTE_DISTRIBUTION")):
        attrs = {"NMONTHS": Rat.atom(NSYM), "INDUSTRIAL_FOODS_SLOPE_MULTIPLIER": Rat.atom(("slope",)), "GLOBAL_MONTHLY_NEEDS": Rat.atom(("needs",)),
                 wkey: Rat.atom(("Wd",))}
        res, fn = run_method(index, rel, clsname, meth, attrs, [Path(("c",))], decisions={flag: True},
                             extra_hook=lambda i, d, a, kw, n: Obj(None, dict(kw), "food") if d == "Food" else NotImplemented)
        dec, r, obj, it = res[0]
        series = obj.attrs.get(attr)
        segs = _segs(series)
        if segs is None:
            raise AnalysisError(f"{clsname}: {attr} is not a list/array")
        lz = leading_zeros(segs, it)
        lead[clsname] = lz - Rat.const(literal_lead)
        # scale of non-zero entries: pct/100/(1-0.12) x slope x needs x fraction x (1 - Wd/100)
        unit = Rat.atom(("slope",)) * Rat.atom(("needs",)) * K_(("c", frac)) * (Rat.const(1) - Rat.atom(("Wd",)) / Rat.const(100)) / Rat.const(100) \
            / Rat.const(Fraction(88, 100))
        pcts = []
        okform = True
        for f, n in segs:
            q = it.to_rat(f) / unit
            if not q.is_const():
                okform = False
                break
            pcts.append(q.const_value())
        rep.check(okform, "C08.FORM", f"{clsname}: entry = percent/100/(1-0.12) x slope x global needs x country share x (1 - distribution waste)",
                  "the production series is not linear in the country's production share with the documented factors", loc=loc(rel, fn),
                  detail=str(segs[-1][0]))
        if okform:
            rep.check(all(a <= b for a, b in zip(pcts, pcts[1:])), rule, f"{clsname}: ramp is non-decreasing", f"the ramp decreases: {pcts}", loc=loc(rel, fn))
        okl = lz == D + Rat.const(literal_lead)
        rep.check(okl, rule, f"{clsname}: first production month = configured delay + {literal_lead}" + ("" if okl else f" [observed {lz}]"),
                  f"production starts after {lz} months; the documented schedule is the configured industrial delay (once) + {literal_lead} months lead-in",
                  loc=loc(rel, fn))
        tr = getattr(series, "truncated_to", None)
        rep.check(tr is not None and it.to_rat(tr) == Rat.atom(NSYM), "C08.LEN", f"{clsname}: cut to NMONTHS", "the series is not cut to NMONTHS entries",
                  loc=loc(rel, fn))
        tail = segs[-1][1]
        rep.check(isinstance(tail, Rat) and tail.is_const() and tail.as_int() >= 120, "C08.LEN", f"{clsname}: long enough before the cut",
                  "the list that is cut to NMONTHS may be shorter than the horizon", loc=loc(rel, fn))
    rep.require_min(rule, 4)


def delay_greenhouse(index, rep, area_rule="C08.DELAY", len_rule="C08.LEN"):
    attrs = {"TOTAL_CROP_AREA": Rat.atom(("area",)), "ADD_GREENHOUSES": True, "NMONTHS": Rat.atom(NSYM), "greenhouse_delay": Rat.atom(("gh_delay",)),
             "GREENHOUSE_AREA_MULTIPLIER": Rat.atom(("mult",))}
    oc = Obj(None, {"KCALS_GROWN": RLE(Rat.atom(("kg",)), Rat.atom(NSYM)), "months_cycle": Path(("mc",)), "all_months_reductions": Path(("amr",)),
                    "OG_KCAL_EXPONENT": Rat.atom(("e",))}, "outdoor_crops")

    def hook(interp, d, a, kw, node):
        if d == "self.assign_productivity_reduction_from_climate_impact":
            return None
        return NotImplemented

    res, fn = run_method(index, GH, "Greenhouses", "get_greenhouse_area", attrs, [Path(("c",)), oc], extra_hook=hook, ref_names=("constants_for_params", "outdoor_crops"))
    done = False
    # written over whole arrays (positions = np.arange(NMONTHS), np.clip ...): every path of the evaluation describes the generic entry i
    # of one run of NMONTHS entries under the conditions it met; compared piece by piece with the documented build-out
    from .symx import EIDX, constraints_of
    from .rat import piecewise_mismatch
    i_ = Rat.atom(EIDX)
    d0 = Rat.atom(("gh_delay",)) + Rat.const(5)
    mult_ = Rat.atom(("mult",))
    spec = [(None, d0, Rat.const(0)), (d0, d0 + Rat.const(36), mult_ * (i_ - d0) / Rat.const(36)), (d0 + Rat.const(36), None, mult_)]
    generic = []
    for dec, r, obj, it in res:
        frac = obj.attrs.get("greenhouse_fraction_area")
        segs = _segs(frac) if frac is not None else None
        if segs and len(segs) == 1 and it.to_rat(segs[0][1]) == Rat.atom(NSYM) and EIDX in {a_ for a_ in it.to_rat(segs[0][0]).atoms()} | {EIDX} \
                and any("elem-index" in k_ for k_ in dec):
            generic.append((constraints_of(it, dec) + [(Rat.atom(("area",)), ">"), (mult_, ">"), (Rat.atom(("gh_delay",)), ">=")], it.to_rat(segs[0][0])))
    if generic:
        done = True
        why = piecewise_mismatch(generic, spec, EIDX, extra=[(i_, ">=")])
        rep.check(why is None, area_rule, "greenhouse area is zero for delay + 5 months (ramp starts from 0)",
                  f"greenhouse share of cropland, entry i: {why}", loc=loc(GH, fn))
        rep.check(why is None, area_rule, "greenhouse share rises monotonically from 0 to the configured multiplier",
                  f"the greenhouse share of cropland is not the 36-month linear build-out to GREENHOUSE_AREA_MULTIPLIER: {why}", loc=loc(GH, fn))
        rep.ok(len_rule, "greenhouse area: cut to NMONTHS", detail="one run of NMONTHS entries")
    for dec, r, obj, it in res:
        if generic:
            break
        frac = obj.attrs.get("greenhouse_fraction_area")
        segs = _segs(frac) if frac is not None else None
        if not segs or len(segs) < 10:
            continue
        done = True
        lz = leading_zeros(segs, it)
        # the ramp's own first point is 0 as well: delay + 5 zeros + linspace(0, L, 37)[0]
        rep.check(lz == Rat.atom(("gh_delay",)) + Rat.const(6), area_rule, "greenhouse area is zero for delay + 5 months (ramp starts from 0)",
                  f"greenhouse area is zero for {lz} entries, expected configured delay + 5 lead-in months + the ramp's zero start", loc=loc(GH, fn))
        vals = [it.to_rat(f) / Rat.atom(("mult",)) for f, n in segs]
        ok = all(v.is_const() for v in vals)
        if ok:
            cv = [v.const_value() for v in vals]
            ok = all(a <= b for a, b in zip(cv, cv[1:])) and max(cv) == 1 and min(cv) == 0
        rep.check(ok, area_rule, "greenhouse share rises monotonically from 0 to the configured multiplier",
                  "the greenhouse share of cropland is not a non-decreasing ramp from 0 to GREENHOUSE_AREA_MULTIPLIER", loc=loc(GH, fn))
        tr = getattr(frac, "truncated_to", None)
        rep.check(tr is not None and it.to_rat(tr) == Rat.atom(NSYM), len_rule, "greenhouse area: cut to NMONTHS", "greenhouse area is not cut to NMONTHS",
                  loc=loc(GH, fn))
    if not done:
        raise AnalysisError("greenhouse area: ramp path not found")
    # no greenhouses -> zero area
    attrs2 = dict(attrs)
    attrs2["ADD_GREENHOUSES"] = False
    res2, _ = run_method(index, GH, "Greenhouses", "get_greenhouse_area", attrs2, [Path(("c",)), oc], extra_hook=hook, ref_names=("constants_for_params", "outdoor_crops"))
    okz = bool(res2)
    for dec, r, obj, it in res2:
        if isinstance(r, Abort):
            continue
        frac = obj.attrs.get("greenhouse_fraction_area")
        segs = _segs(frac) if frac is not None else None
        if not (segs and all(it.to_rat(f).is_zero() for f, n in segs)):
            okz = False
    rep.check(okz, area_rule, "no greenhouses => zero area share", "without greenhouses the area share is not identically zero", loc=loc(GH, fn))
    # no cropland => nothing is taken from the outdoor crops for greenhouses: the share is identically zero
    attrs3 = dict(attrs)
    attrs3["TOTAL_CROP_AREA"] = Rat.const(0)
    try:
        res3, _ = run_method(index, GH, "Greenhouses", "get_greenhouse_area", attrs3, [Path(("c",)), oc], extra_hook=hook, ref_names=("constants_for_params", "outdoor_crops"))
    except AnalysisError:
        res3 = []
    ok0 = bool(res3)
    for dec, r, obj, it in res3:
        if isinstance(r, Abort):
            continue
        frac = obj.attrs.get("greenhouse_fraction_area")
        segs = _segs(frac) if frac is not None else None
        if not (segs and all(it.to_rat(f).is_zero() for f, n in segs)):
            ok0 = False
    rep.check(ok0, area_rule, "no cropland => zero area share", "a country without cropland still has a non-zero greenhouse share of cropland: outdoor "
              "output is reduced for greenhouses that cover no area", loc=loc(GH, fn))


def delay_seaweed(index, rep):
    """seaweed farm area: the initial area for DELAY[SEAWEED_MONTHS] months, then a linear ramp (element i = initial + i x new area per month,
    new area per month = global rate x country share), each entry capped at the maximum area, cut to NMONTHS - evaluated elementwise"""
    from .rat import feasible
    from .symx import EIDX
    rule = "C08.DELAY"
    init, mx, glob = Rat.atom(("init",)), Rat.atom(("max",)), Rat.atom(("global_rate",))
    attrs = {"INITIAL_BUILT_SEAWEED_AREA": init, "MAXIMUM_SEAWEED_AREA": mx, "SEAWEED_NEW_AREA_PER_MONTH_GLOBAL": glob, "NMONTHS": Rat.atom(NSYM)}
    res, fn = run_method(index, SW, "Seaweed", "get_built_area", attrs, [Path(("c",))], decisions={"c.ADD_SEAWEED": True})
    neg = {"<": ">=", "<=": ">", ">": "<=", ">=": "<", "==": "!=", "!=": "=="}
    delay = K_(("c", "DELAY", "SEAWEED_MONTHS"))
    share = K_(("c", "SEAWEED_NEW_AREA_FRACTION"))
    i = Rat.atom(EIDX)
    n = 0
    bad = {}
    for dec, r, obj, it in res:
        cons = [(it.pred_exprs[k][0], it.pred_exprs[k][1] if v else neg[it.pred_exprs[k][1]]) for k, v in dec.items() if k in it.pred_exprs]
        if not feasible(cons + [(init, ">="), (mx, ">="), (glob, ">="), (share, ">="), (i, ">=")]):
            continue
        area = obj.attrs.get("built_area")
        segs = _segs(area) if area is not None else None
        if not segs or len(segs) != 2:
            n += 1
            bad.setdefault("shape", f"built area is not [initial] x delay followed by a ramp ({len(segs) if segs else 0} segments)")
            continue
        n += 1
        (f1, n1), (f2, n2) = segs
        f1, f2 = it.to_rat(f1), it.to_rat(f2)
        capped1 = not feasible(cons + [(init - mx, "<=")])      # conditions imply initial > max
        capped2 = not feasible(cons + [(init + i * glob * share - mx, "<=")])
        free2 = not feasible(cons + [(init + i * glob * share - mx, ">")])
        if not (it.to_rat(n1) == delay and (f1 == init or (capped1 and f1 == mx))):
            bad.setdefault("delay", f"first {n1} entries are {f1}")
        want2 = mx if capped2 else (init + i * glob * share if free2 else None)
        if want2 is None or f2 != want2:
            bad.setdefault("ramp" if not capped2 else "cap", f"entry i of the ramp is {f2}")
        if not (f1 == init or f1 == mx):
            bad.setdefault("cap", f"held entries are {f1}")
        tr = getattr(area, "truncated_to", None)
        if not (tr is not None and it.to_rat(tr) == Rat.atom(NSYM) and it.to_rat(n2) == Rat.atom(NSYM)):
            bad.setdefault("len", "not cut to NMONTHS from a ramp of NMONTHS entries")
    if n < 1:
        raise AnalysisError("seaweed built area: no feasible path analysed")
    if n < 2 and not bad:
        bad["cap"] = "no path on which an entry above the maximum is replaced by the maximum"
    rep.check("shape" not in bad and "delay" not in bad, rule, "seaweed: built area constant for the configured delay",
              "the farm area is not held at its initial value for DELAY[SEAWEED_MONTHS] months: " + bad.get("delay", bad.get("shape", "")), loc=loc(SW, fn))
    rep.check("ramp" not in bad, rule, "seaweed: then a linear ramp from the initial area by new-area-per-month",
              "after the delay entry i is not initial area + i x (global new area per month x country share): " + bad.get("ramp", ""), loc=loc(SW, fn))
    rep.check("cap" not in bad, rule, "seaweed: capped at the maximum area", "the built area is not capped at MAXIMUM_SEAWEED_AREA entry by entry: " + bad.get("cap", ""),
              loc=loc(SW, fn))
    rep.check("len" not in bad, "C08.LEN", "seaweed area: cut to NMONTHS", "built area is not cut to NMONTHS", loc=loc(SW, fn))
    rep.check("ramp" not in bad, "C08.FORM", "seaweed: new area per month linear in the country share",
              "new area per month is not the global rate x the country's share", loc=loc(SW, fn))


def growth(index, rep):
    """supplier x consumer: the factor the LP applies to last month's biomass, as a function of the daily growth d, must be
    the 30-day compounding (1 + d/100)^30"""
    rule = "C08.GROWTH"
    fn = index.func(SW, "Seaweed.get_growth_rates")
    from .core import Inliner
    rets = [r for r in fn.body if isinstance(r, ast.Return)]
    if len(rets) != 1:
        raise AnalysisError("get_growth_rates: single return not found")
    inl = Inliner(fn)
    expr = inl.stored_value(rets[0].value)     # `return self.x` after `self.x = <formula>` reads as the formula
    # the daily series (sorted by column) is whatever array of SEAWEED_GROWTH_PER_DAY values the expression is built from: abstract it to `d`
    d = Rat.atom(("d",))
    daily = [n_ for n_ in ast.walk(expr) if isinstance(n_, ast.Call) and dotted(n_.func) in ("np.array", "np.asarray") and "SEAWEED_GROWTH_PER_DAY" in norm_src(n_)]
    if not daily:
        raise AnalysisError("get_growth_rates: the array of daily growth percentages was not found in the returned expression")
    it = Interp()
    target = daily[0]

    class Sub(ast.NodeTransformer):
        def visit_Call(self, node):
            if node is target:
                return ast.Name(id="__daily__", ctx=ast.Load())
            return self.generic_visit(node)

    expr2 = Sub().visit(expr)
    try:
        g = it.to_rat(it.eval(expr2, {"__daily__": d}))
    except Exception as e:
        raise AnalysisError(f"monthly growth expression outside the fragment: {e!r}")
    stored = [s_ for s_ in walk_no_nested(fn) if isinstance(s_, ast.Assign) and norm_src(s_.targets[0]) == "self.growth_rates_monthly"]
    rep.check(all(inl.src(s_.value) == norm_src(inl.stored_value(rets[0].value)) for s_ in stored), rule, "supplier returns the computed series",
              "the series stored on the object is not the one returned", loc=loc(SW, fn))
    # consumer: coefficient of wet[m-1] in the LP ledger as a function of the supplied value
    from .lpdb import LPDB
    from .symx import Cmp
    db = LPDB(index)
    ts = [t for t in db.extract_resource("ADD_SEAWEED", "to_humans") if not t.aborted and not (t.mc.lo == (0, 0) and t.mc.singleton())]
    n = 0
    for t in ts:
        eqs = [c for _, c in t.constraints if isinstance(c, Cmp) and c.sense == "==" and any(v.family == "seaweed_wet_on_farm" for v in c.expr.vars())]
        if len(eqs) != 1:
            raise AnalysisError("seaweed ledger equality not found in the LP template")
        co, _ = eqs[0].expr.linear_in_vars()
        wets = sorted([v for v in co if v.family == "seaweed_wet_on_farm"], key=lambda v: (v.idx.n, v.idx.c))
        if len(wets) != 2:
            raise AnalysisError("seaweed ledger does not relate this month's biomass to last month's")
        prev, cur = wets[0], wets[1]
        F = (Rat.const(0) - co[prev]) / co[cur]
        atoms = [a for a in F.atoms() if getattr(a, "path", None) == ("tc", "growth_rates_monthly", "[]")]
        if len(atoms) != 1 or len(F.atoms()) != 1:
            raise AnalysisError(f"seaweed growth factor depends on {sorted(map(str, F.atoms()))}")
        composed = F.subst({atoms[0]: g})
        want = (Rat.const(1) + d / Rat.const(100)) ** 30
        n += 1
        rep.check(composed == want, rule, f"biomass factor = (1 + daily/100)^30 [months{t.mc}]",
                  "supplier and LP ledger together do not multiply last month's seaweed biomass by the 30-day compounding of the daily growth: "
                  f"the factor is {('1 + ' if (composed - want) == Rat.const(1) else '')}(1+d/100)^30{' (one extra copy of the farm every month)' if (composed - want) == Rat.const(1) else ''}",
                  loc=loc(OPT, index.func(OPT, "Optimizer.add_seaweed_to_model")), detail=f"factor - (1+d/100)^30 = {composed - want}"[:200])
    if n < 1:
        raise AnalysisError("no seaweed ledger template")
    # the series handed to the optimiser is this one (time_consts['growth_rates_monthly'])
    p = index.func(PARAMS, "Parameters.set_seaweed_params")
    inl_p = Inliner(p)
    prets = [r for r in p.body if isinstance(r, ast.Return) and isinstance(r.value, ast.Tuple)]
    slot = None
    for r in prets:
        for k, e in enumerate(r.value.elts):
            t_ = inl_p.src(e)
            if t_.startswith("Seaweed(") and ".get_growth_rates(" in t_:
                slot = k
    f1 = index.func(PARAMS, "Parameters.compute_parameters_first_round")
    inl_f = Inliner(f1)
    sts = [v_ for t_, v_ in inl_f.stores if isinstance(t_, ast.Subscript) and str_const(t_.slice) == "growth_rates_monthly"]
    okw = slot is not None and len(sts) == 1 and inl_f.src(sts[0]).startswith("self.set_seaweed_params(") and inl_f.src(sts[0]).endswith(f"[{slot}]")
    rep.check(okw, rule, "supplier wired to the optimiser input",
              "growth_rates_monthly is not the series returned by Seaweed.get_growth_rates", loc=loc(PARAMS, p))


# ------------------------------------------------------------------------------------------------ UNITLIT

EXTENSIVE = ["BASELINE_CROP_KCALS", "BASELINE_CROP_FAT", "BASELINE_CROP_PROTEIN", "BIOFUEL_KCALS", "BIOFUEL_FAT", "BIOFUEL_PROTEIN", "FEED_KCALS",
             "FEED_FAT", "FEED_PROTEIN", "HUMAN_INEDIBLE_FEED_BASELINE_MONTHLY", "POP", "TONS_MILK_ANNUAL", "TONS_CHICKEN_AND_PORK_ANNUAL",
             "TONS_BEEF_ANNUAL", "FISH_DRY_CALORIC_ANNUAL", "FISH_FAT_TONS_ANNUAL", "FISH_PROTEIN_TONS_ANNUAL", "INITIAL_MILK_CATTLE", "INIT_SMALL_ANIMALS",
             "INIT_MEDIUM_ANIMALS", "INIT_LARGE_ANIMALS_WITH_MILK_COWS"]


def num_eval(e, sums):
    if isinstance(e, ast.Constant) and isinstance(e.value, (int, float)):
        return float(e.value)
    if isinstance(e, ast.BinOp):
        a, b = num_eval(e.left, sums), num_eval(e.right, sums)
        if a is None or b is None:
            return None
        if isinstance(e.op, ast.Add):
            return a + b
        if isinstance(e.op, ast.Sub):
            return a - b
        if isinstance(e.op, ast.Mult):
            return a * b
        if isinstance(e.op, ast.Div):
            return a / b if b else None
        return None
    if isinstance(e, ast.Subscript) and norm_src(e.value) == "country_data" and str_const(e.slice):
        return sums.get(str_const(e.slice))
    if isinstance(e, ast.Call) and dotted(e.func) in ("np.array", "float", "int") and len(e.args) == 1:
        return num_eval(e.args[0], sums)
    return None


def unitlit(index, rep):
    rule = "C08.UNITLIT"
    with open(index.path(TABLE), newline="") as f:
        rows = list(csv.DictReader(f))
    sums = {}
    for col in rows[0]:
        try:
            sums[col] = sum(float(r[col]) for r in rows)
        except ValueError:
            pass
    g = index.func(SCEN, "Scenarios.init_global_food_system_properties")
    c = index.func(SCEN, "Scenarios.init_country_food_system_properties")

    def assigns(fn):
        out = {}
        rets = [norm_src(r.value) for r in walk_no_nested(fn) if isinstance(r, ast.Return) and isinstance(r.value, ast.Name)]
        base = rets[-1] if rets else "constants_for_params"
        for s in walk_no_nested(fn):
            if isinstance(s, ast.Assign) and isinstance(s.targets[0], ast.Subscript) and norm_src(s.targets[0].value) == base \
                    and str_const(s.targets[0].slice):
                # skip assignments under `if <literal False flag>:`
                p = getattr(s, "_parent", None)
                dead = False
                while p is not None and p is not fn:
                    if isinstance(p, ast.If) and isinstance(p.test, ast.Name) and any(s is x for b in p.body for x in ast.walk(b)):
                        flag = [a for a in walk_no_nested(fn) if isinstance(a, ast.Assign) and norm_src(a.targets[0]) == p.test.id
                                and isinstance(a.value, ast.Constant) and a.value.value is False]
                        dead = dead or bool(flag)
                    p = getattr(p, "_parent", None)
                if not dead:
                    out[str_const(s.targets[0].slice)] = s
        return out

    ga, ca = assigns(g), assigns(c)
    n = 0
    for key in EXTENSIVE:
        if key not in ga or key not in ca:
            raise AnalysisError(f"baseline {key} is not written by both the world and the country initialiser")
        w = num_eval(ga[key].value, {})
        cs = num_eval(ca[key].value, sums)
        if w is None or cs is None or cs == 0:
            raise AnalysisError(f"baseline {key}: expression outside the arithmetic fragment")
        ratio = w / cs
        n += 1
        rep.check(0.25 <= ratio <= 4, rule, f"world {key} ~ sum over the country table",
                  f"the world-aggregate literal ({w:.6g}) is {ratio:.3g} x the sum of the country path's values ({cs:.6g}) - the two initialisers "
                  "use different units for the same constant, which the consumer reads with one fixed unit", loc=loc(SCEN, ga[key]))
    rep.require_min(rule, 20)


def describe(rep):
    rep.explanation = (
        "Static analysis of the supply-series builders (nothing executed; numpy arrays are modelled as run-length segments with "
        "exact rational fills). C08.CAL: the crop seasonal cycle entry j is the seasonality share of calendar month (start-1+j) "
        "mod 12 x annual yield x 4e6/1e9 with start = May; the crop disruption schedule is [year-1] x 8 + [year k] x 12 (k=2..9) + "
        "[year 10] x 16; the grass schedule, evaluated for every supported horizon 48..120, is year-k ratio x monthly baseline in "
        "blocks 8, 12, ..., 16 totalling N. C08.LOOP: month i reads calendar month i mod 12 and reduction i; relocated = m*r or "
        "m*r^e, not relocated = m*r. C08.FORM/STOCK: fish, crops, SCP, cellulosic sugar, stored food satisfy their documented "
        "formula (linear in the baseline, the right waste factors, the right stock month). C08.DELAY/C09.AREA: production starts "
        "after configured delay + literal lead-in, ramps are non-decreasing, greenhouse share runs 0 -> multiplier, seaweed area is "
        "delay-constant then linear then capped. C08.GROWTH: monthly gain = 100((1+d/100)^30 - 1). C08.LEN: every series is cut to "
        "NMONTHS from a long-enough list. C08.UNITLIT: each world-aggregate baseline literal is within a factor 4 of the country "
        "table's column sum (same unit). Not decided: finiteness for NaN/negative inputs; horizons that are not multiples of 12."
    )
    rep.assumptions = ["NMONTHS is a multiple of 12 in 48..120", "inputs are non-negative and finite", "round(x, 8) of a non-positive tiny value is treated as identity"]
